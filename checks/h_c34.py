"""CrossHair harnesses for C34 - permission checks follow the declared access rules.

What runs: the REAL `Database.set_perms_for`, `perm`, `_split_names`, `AccessRule.__init__`, `AccessRule.exclude`,
`has_perm`, `can_view/can_edit/can_create/can_delete`, `get_user_groups`, `get_user_roles`, `get_object_labels`, the
three getter decorators, `Database.to_json` and `Database._get_schema_dict`, on a real mapped model

    class A(db.Entity):  id, x = Optional(int), h = Optional(int, hidden=True), b = Optional('B')   (+ discriminator)
    class A2(A):         y = Optional(int)
    class B(db.Entity):  id, a_set = Set('A')

bound to the real SQLiteProvider over the fake pool (`engine.env.mock_database('sqlite')`).  Every explored path
re-declares the rule set through the public API (the rule sets of the three entities are emptied first), opens a
db_session, creates the objects a=A[1] (a.b = b), a2=A2[2], b=B[1] in it and asks the real functions.

Symbolic (CrossHair): for each of TWO declared rules the permission name(s), the entities named in set_perms_for, the
group / role / label requirement, the excluded entity and the excluded attribute (either side of the relationship);
what the user-groups / user-roles / object-labels getters return (also the form: None, a single name, a set), whether
the user is None, a plain object or the object itself (role 'self'); the shape of the to_json call.  All of these are
small selectors, so CrossHair's "Confirmed over all paths" means: every combination inside the stated bound was
executed through the real code.  One harness cannot hold the whole product (measured 12-25 paths/s; two fully free rules
x user x target are > 10^6 paths), so the product is cut into harness functions that keep some selectors fixed (listed
per harness in checks/c34.py: BOUNDS).  Every harness asks ALL targets of its kind (entities A, A2, B / the eight
attributes / the three objects) in one path, twice (second pass in reverse order: "repeated checks give the same
answer"), and - because the rules live in Python sets ordered by object identity - under BOTH iteration orders of two
rules that share a set (the rules are re-declared until the order is reversed; fresh db_session for each order), so a
counterexample never depends on memory addresses.

Reference (stated here, not copied from pony; `rules` = the declarations as data):
  * a rule COVERS entity E for permission p iff p is one of its permissions and E is one of the entities of its
    set_perms_for block or a subclass of one; it MATCHES the user iff the user's groups (getter results + 'anybody';
    None has only 'anybody') contain all its groups; exclude(E) excludes E and its subclasses, exclude(attr) excludes
    that attribute.
  * entity E:   granted iff some covering, matching rule does not exclude E.
  * object o:   granted iff some rule covering type(o) matches, the user's roles on o (getter results, + 'self' when
                the user is o) contain the rule's roles, o's labels contain the rule's labels, and type(o) is not
                excluded by that rule.
  * attribute:  side(t) := some rule covering t's entity matches and excludes neither that entity nor t; a hidden
                attribute is never granted; a non-relationship attribute is granted iff side(t);
                a relationship attribute t with reverse r is granted iff side(t) AND side(r)
                ("minus exclusions, including exclusions on the reverse side of relationships").
  * can_view = view or edit; can_edit = edit; can_create = create; can_delete = delete.
  * to_json(data) raises PermissionError iff an object it has to emit (the data objects and the objects reached through
    `include`d relationship attributes) is not viewable, otherwise it emits exactly those objects; the schema lists
    exactly the viewable entities and, of those, the viewable attributes whose reverse entity and reverse attribute are
    viewable too.

Interpretation recorded.  The relationship rule is the only place where the property text leaves room (the permission
API is not documented anywhere in /repo); three modes are therefore provided for attribute targets:
  exact  - the AND reading above: the reading under which reverse-side exclusions SUBTRACT, as the property says, and
           the one that pony's own consumer `_get_schema_dict` and the inner `if not reverse_rules: return False` of
           has_perm imply;
  deny   - reading-independent upper bound: an attribute for which neither side(t) nor side(r) holds must be denied;
  grant  - reading-independent lower bound: side(t) and (no reverse or side(r)) => granted.
`deny` and `grant` are implied by `exact`, by the OR reading ("either side suffices") and by every reading in between;
`attr_rule_order` asserts, equally reading-independent, that the answer does not depend on the order in which the
Python set of rules happens to iterate.
Roles and labels are not consulted for entity and attribute targets (there is no object to ask about).
`object_exclusions_rest` / `to_json_objects_rest` leave out the objects whose entity some rule excludes (the region of
the object-level finding) so that the remaining space is still decided while that finding exists.

Deviations from DESIGN.md C34: the design's single harness over two fully symbolic rules is split (see above); the
subset semantics of groups / roles / labels are decided in single-rule harnesses with two names each; to_json and the
schema filter, which the design put outside, are inside (they run without SQL on objects created in the session).
Tracing: everything symbolic is realised while the declarations are decoded, so from `declare()` on the real code runs
on concrete values.  CrossHair's tracer is ON for the first pass of can_* / to_json / _get_schema_dict calls under the
first rule order, and for the declarations in the harnesses `groups`, `roles`, `labels`, `permissions`,
`object_userkinds`; it is OFF (crosshair.tracers.NoTracing) for scaffolding - db_session enter/exit, creating the
objects, the repeated pass, the run under the reversed order, the reference evaluation - and for the declarations of
the two-rule product harnesses (sets built under the tracer are CrossHair set models, which made has_perm 3x slower).
`check()` refuses to enter tracer-off code with anything but plain Python data.
"""
import json, os
from engine.ch import ok

THOROUGH = os.environ.get('C34_TIER') == 'thorough'

db = A = A2 = B = core = None
ENT = {}       # name -> entity class
ATTR = {}      # 'A.b' -> Attribute
CTX = {'any': None, 'user': None, 'roles': {}, 'labels': {}}
NPATHS = 0
class _Null(object):
    def __enter__(self): return self
    def __exit__(self, *a): return False

# ---------------------------------------------------------------------------------- facts of the model (reference side)
SUB = {'A': ('A', 'A2'), 'A2': ('A2',), 'B': ('B',)}
ATTR_ENT = {'A.id': 'A', 'A.x': 'A', 'A.h': 'A', 'A.b': 'A', 'A.classtype': 'A', 'A2.y': 'A2', 'B.id': 'B', 'B.a_set': 'B'}
REVERSE = {'A.b': 'B.a_set', 'B.a_set': 'A.b'}
HIDDEN = ('A.h',)
ENT_NAMES = ('A', 'A2', 'B')
ATTR_NAMES = ('A.id', 'A.x', 'A.h', 'A.b', 'A.classtype', 'A2.y', 'B.id', 'B.a_set')
OBJ_NAMES = ('a', 'a2', 'b')
OBJ_ENT = {'a': 'A', 'a2': 'A2', 'b': 'B'}
QUERIES = ('view', 'edit', 'create', 'delete')      # can_view, can_edit, can_create, can_delete

# selector tables (index = harness argument)
PERM_T = ('view', 'edit', 'create', 'delete', 'view edit', 'edit,delete')
ESET_T = (('A',), ('B',), ('A', 'B'), ('A2',), ('A2', 'B'))
XE_T = (None, 'A', 'B', 'A2')
XA_T = (None, 'A.b', 'B.a_set', 'A.x', 'A2.y')
PERM_SPLIT = {'view': ('view',), 'edit': ('edit',), 'create': ('create',), 'delete': ('delete',), 'view edit': ('view', 'edit'),
              'edit,delete': ('edit', 'delete')}
NAMES2_T = ((), ('n1',), ('n2',), ('n1', 'n2'))     # subsets of two names (groups / roles / labels harnesses)

# tier-dependent bounds used in the `pre:` lines
N_XE = 4
N_XA_ATTR = 5 if THOROUGH else 3
N_P_ATTR = 2 if THOROUGH else 1
N_E_ENT = 5 if THOROUGH else 3
N_P_ENT = 6 if THOROUGH else 2


class User(object):
    def __hash__(self): return 7
    def __repr__(self): return 'User()'


class SubUser(User):                      # a getter registered for User applies to instances of its subclasses too
    def __repr__(self): return 'SubUser()'


def setup():
    global db, A, A2, B, core
    if db is not None: return
    from engine import env
    from pony.orm import core as _core, PrimaryKey, Optional, Set
    core = _core
    db = env.mock_database('sqlite')

    class A(db.Entity):
        id = PrimaryKey(int)
        x = Optional(int)
        h = Optional(int, hidden=True)
        b = Optional('B')

    class A2(A):
        y = Optional(int)

    class B(db.Entity):
        id = PrimaryKey(int)
        a_set = Set('A')
    g = globals()
    g['A'], g['A2'], g['B'] = A, A2, B
    db.generate_mapping(check_tables=False)
    ENT.update(A=A, A2=A2, B=B)
    ATTR.update({'A.classtype': A.classtype, 'A.id': A.id, 'A.x': A.x, 'A.h': A.h, 'A.b': A.b, 'A2.y': A2.y, 'B.id': B.id, 'B.a_set': B.a_set})
    core.time = lambda: 0.0
    if os.environ.get('C34_MUTANT'):          # canary runs only (see checks/h_c34_canary.py); unset in ./check
        from checks import h_c34_canary
        h_c34_canary.apply(core, os.environ['C34_MUTANT'])
    del core.usergroup_functions[:], core.userrole_functions[:], core.objlabel_functions[:]

    @core.user_groups_getter()                 # applies to every user
    def groups_any(user): return CTX['any']

    @core.user_groups_getter(User)             # applies to User instances only
    def groups_user(user): return CTX['user']

    @core.user_roles_getter()
    def roles_of(user, obj): return CTX['roles'].get(_objname(obj))

    @core.obj_labels_getter()
    def labels_of(obj): return CTX['labels'].get(_objname(obj))


def _objname(obj):
    return {'A': 'a', 'A2': 'a2', 'B': 'b'}[obj.__class__.__name__]


def pick(table, k):
    """realise a small symbolic selector by comparisons (one path per value)"""
    for i in range(len(table) - 1):
        if k == i: return table[i]
    return table[len(table) - 1]


def form(names):
    """what a getter returns for a set of names: None / a single name / a set (the three documented forms)"""
    names = tuple(names)
    if not names: return None
    if len(names) == 1: return names[0]
    return set(names)


def rule(perms='view', ents=('A', 'B'), groups=(), roles=(), labels=(), xe=None, xa=None):
    return {'perms': PERM_SPLIT[perms], 'perm_text': perms, 'ents': tuple(ents), 'groups': tuple(groups),
            'roles': tuple(roles), 'labels': tuple(labels), 'xe': xe, 'xa': xa}


# ------------------------------------------------------------------------------------------------------- reference
def closure(names):
    out = set()
    for n in names: out.update(SUB[n])
    return out


def covers(r, p, e): return p in r['perms'] and e in closure(r['ents'])
def matches(r, ug): return set(r['groups']) <= ug
def excludes_entity(r, e): return r['xe'] is not None and e in SUB[r['xe']]


def ref_entity(rules, ug, p, e):
    return any(covers(r, p, e) and matches(r, ug) and not excludes_entity(r, e) for r in rules)


def ref_object(rules, ug, roles, labels, p, o):
    e = OBJ_ENT[o]
    return any(covers(r, p, e) and matches(r, ug) and set(r['roles']) <= roles[o] and set(r['labels']) <= labels[o]
               and not excludes_entity(r, e) for r in rules)


def side(rules, ug, p, t):
    e = ATTR_ENT[t]
    return any(covers(r, p, e) and matches(r, ug) and not excludes_entity(r, e) and r['xa'] != t for r in rules)


def ref_attr(rules, ug, p, t):
    """(lower bound, exact = AND reading, upper bound)"""
    if t in HIDDEN: return (False, False, False)
    f = side(rules, ug, p, t)
    r = REVERSE.get(t)
    if r is None: return (f, f, f)
    rv = side(rules, ug, p, r)
    return (f and rv, f and rv, f or rv)


def q_perms(q): return ('view', 'edit') if q == 'view' else (q,)


def user_groups_of(userkind, g_any, g_user):
    ug = {'anybody'}
    if userkind != 'none':
        ug |= set(g_any)
        if userkind in ('plain', 'sub'): ug |= set(g_user)
    return ug


def roles_of_user(userkind, roles):
    out = {}
    for o in OBJ_NAMES:
        if userkind == 'none': out[o] = set()
        else:
            out[o] = set(roles.get(o, ()))
            if userkind == o: out[o].add('self')
    return out


# ------------------------------------------------------------------------------------------------ driving real pony
def declare(rules):
    """the declarations, through the public API; returns the AccessRule objects"""
    objs = []
    for r in rules:
        with db.set_perms_for(*[ENT[n] for n in r['ents']]):
            kw = {}
            if r['groups']: kw['group'] = ' '.join(r['groups'])
            if r['roles']: kw['roles'] = list(r['roles'])
            if r['labels']: kw['label'] = ','.join(r['labels'])
            ar = core.perm(r['perm_text'], **kw)
            ex = []
            if r['xe'] is not None: ex.append(ENT[r['xe']])
            if r['xa'] is not None: ex.append(ATTR[r['xa']])
            if ex: ar.exclude(*ex)
            objs.append(ar)
    return objs


def reset_rules():
    for e in (A, A2, B): e._access_rules_.clear()


def order_signature(objs):
    sig = []
    for e in (A, A2, B):
        for p in sorted(e._access_rules_):
            s = e._access_rules_[p]
            if len(s) > 1: sig.append(tuple(objs.index(x) for x in s))
    return tuple(sig)


_DEPTH = [0]          # > 0: inside a tracer-off section of a CrossHair run


class _Off(object):
    """CrossHair tracer off (bookkeeping on concrete data only); no-op outside CrossHair"""
    def __enter__(self):
        self.cm = None
        try:
            from crosshair.tracers import NoTracing, is_tracing
            if is_tracing():
                self.cm = NoTracing(); self.cm.__enter__(); _DEPTH[0] += 1
        except ImportError:
            pass
        return self
    def __exit__(self, *a):
        if self.cm is not None:
            _DEPTH[0] -= 1
            return self.cm.__exit__(*a)
        return False


class _On(object):
    """tracer back on for the real pony calls inside a tracer-off section"""
    def __enter__(self):
        self.cm = None
        if _DEPTH[0] > 0:
            from crosshair.tracers import ResumedTracing
            self.cm = ResumedTracing(); self.cm.__enter__()
            self.saved = _DEPTH[0]; _DEPTH[0] = 0
        return self
    def __exit__(self, *a):
        if self.cm is not None:
            _DEPTH[0] = self.saved
            return self.cm.__exit__(*a)
        return False


def _untraced(): return _Off()
def _traced(): return _On()


def concrete(x):
    """the decoded declarations must be plain Python data before they enter tracer-off code"""
    t = type(x)
    if t in (tuple, list): return all(concrete(y) for y in x)
    if t is dict: return all(type(k) is str and concrete(v) for k, v in x.items())
    if x is None or t in (str, bool, int): return True
    BAD.append(repr(t))
    return False
BAD = []


class Session(object):
    """db_session with the three objects (scaffolding, called with the tracer off)"""
    def __enter__(self):
        core.local.user_groups_cache.clear(); core.local.user_roles_cache.clear()
        self.cm = core.db_session()
        self.cm.__enter__()
        b = B(id=1)
        self.objs = {'a': A(id=1, x=5, b=b), 'a2': A2(id=2), 'b': b}
        return self.objs
    def __exit__(self, *exc):
        try: core.rollback()
        finally: self.cm.__exit__(None, None, None)
        return False


CAN = None
def _can():
    global CAN
    if CAN is None: CAN = {'view': core.can_view, 'edit': core.can_edit, 'create': core.can_create, 'delete': core.can_delete}
    return CAN


KIND_NAMES = {'entity': ENT_NAMES, 'attr': ATTR_NAMES, 'object': OBJ_NAMES}


def set_context(g_any, g_user, roles, labels):
    CTX['any'], CTX['user'] = form(g_any), form(g_user)
    CTX['roles'] = {o: form(v) for o, v in roles.items()}
    CTX['labels'] = {o: form(v) for o, v in labels.items()}


def both_orders(rules, body, trace_decl=False):
    """Run body(objects, traced_first) once per iteration order of the declared rules.  The rules live in Python sets
    ordered by object identity, so they are re-declared (earlier AccessRule objects kept alive) until every rule set
    with two rules iterates in the reverse order of the first declaration.  A fresh db_session per order."""
    keep, results, first_sig = [], [], None
    for attempt in range(400):
        reset_rules()
        if attempt == 0 and trace_decl:
            with _traced(): objs = declare(rules)
        else: objs = declare(rules)
        keep.append(objs)
        sig = order_signature(objs)
        if first_sig is None: first_sig = sig
        elif not all(s == tuple(reversed(f)) for s, f in zip(sig, first_sig)): continue
        with Session() as o:
            results.append(body(o, not results))
        if not first_sig or len(results) == 2: break
    else:
        raise RuntimeError('could not obtain the reversed rule order')
    reset_rules()
    return results


def ask(rules, userkind, g_any, g_user, roles, labels, kinds, queries=QUERIES, trace_decl=False):
    """-> list (one per rule iteration order) of {(query, kind, target): [first answer, second answer]} from the real
    code.  Called with the tracer off; the first pass of questions of the first order (and, with trace_decl, the
    declarations) run with the tracer on."""
    set_context(g_any, g_user, roles, labels)
    can = _can()

    def body(o, first):
        user = None if userkind == 'none' else User() if userkind == 'plain' else SubUser() if userkind == 'sub' else o[userkind]
        tgt = {'entity': ENT, 'attr': ATTR, 'object': o}
        pairs = [(q, k, n, tgt[k][n]) for q in queries for k in kinds for n in KIND_NAMES[k]]
        got = {}
        if first:
            with _traced():
                for q, k, n, t in pairs: got[q, k, n] = [can[q](user, t)]
        else:
            for q, k, n, t in pairs: got[q, k, n] = [can[q](user, t)]
        for q, k, n, t in reversed(pairs): got[q, k, n].append(can[q](user, t))      # repeated check
        return got
    return both_orders(rules, body, trace_decl)


def expected(rules, userkind, g_any, g_user, roles, labels, kinds, queries=QUERIES):
    """{(query, kind, target): (lower, exact, upper)}"""
    ug = user_groups_of(userkind, g_any, g_user)
    ur = roles_of_user(userkind, roles)
    ol = {o: set(labels.get(o, ())) for o in OBJ_NAMES}
    out = {}
    for q in queries:
        for kind in kinds:
            for n in KIND_NAMES[kind]:
                if kind == 'entity':
                    v = any(ref_entity(rules, ug, p, n) for p in q_perms(q)); out[q, kind, n] = (v, v, v)
                elif kind == 'object':
                    v = any(ref_object(rules, ug, ur, ol, p, n) for p in q_perms(q)); out[q, kind, n] = (v, v, v)
                else:
                    trip = [ref_attr(rules, ug, p, n) for p in q_perms(q)]
                    out[q, kind, n] = tuple(any(t[i] for t in trip) for i in range(3))
    return out


def mismatches(rules, userkind, g_any, g_user, roles, labels, kinds, mode='exact', skip=None, queries=QUERIES, trace_decl=False):
    """list of (query, kind, target, order index, answers, (lower, exact, upper)) where the real code leaves the reference"""
    exp = expected(rules, userkind, g_any, g_user, roles, labels, kinds, queries)
    bad = []
    results = ask(rules, userkind, g_any, g_user, roles, labels, kinds, queries, trace_decl)
    if mode == 'order':
        # reading-independent: the answer may not depend on the iteration order of the rule sets, nor on the repetition
        for key in results[0]:
            answers = tuple(a for got in results for a in got[key])
            if len(set(answers)) > 1: bad.append((key[0], key[1], key[2], 'order', answers, exp[key]))
        return bad
    for i, got in enumerate(results):
        for key, answers in got.items():
            if skip is not None and skip(key[1], key[2]): continue
            lo, ex, up = exp[key]
            for a in answers:
                if a is not True and a is not False: good = False
                elif mode == 'exact': good = a == ex
                elif mode == 'deny': good = up or not a
                else: good = a or not lo
                if not good:
                    bad.append((key[0], key[1], key[2], i, tuple(answers), exp[key])); break
    return bad


LAST = {}          # what the last explored path asked and found (read by checks/c34.py: explain())


def check(rules, kinds, mode='exact', userkind='plain', g_any=(), g_user=(), roles=None, labels=None, skip=None,
          queries=QUERIES, trace_decl=False):
    global NPATHS
    NPATHS += 1
    if isinstance(kinds, str): kinds = (kinds,)
    args = (rules, userkind, tuple(g_any), tuple(g_user), roles or {}, labels or {}, tuple(kinds))
    with _untraced():
        if not concrete(args): raise RuntimeError('symbolic value left in the decoded declarations: %s' % BAD)
        bad = mismatches(*args, mode=mode, skip=skip, queries=queries, trace_decl=trace_decl)
        LAST.clear()
        LAST.update(rules=rules, userkind=userkind, g_any=args[2], g_user=args[3], roles=args[4], labels=args[5], mode=mode, bad=bad)
        return not bad


def excluded_somewhere(rules):
    """entities named (with subclasses) in some rule's exclude(): the region of the object-level finding"""
    out = set()
    for r in rules:
        if r['xe'] is not None: out.update(SUB[r['xe']])
    return out


# =================================================================================================== harnesses
# Convention for the "match" selectors m1/m2: the user is in group g1 only; m = True -> the rule asks for no group,
# m = False -> the rule asks for group g2 (which the user lacks).  Group-set semantics proper are in `groups`.
def _grp(m): return () if m else ('g2',)
def _one(flag, name): return (name,) if flag else ()


# ---- entity targets: two rules; symbolic permission, entity list, match, excluded entity of both rules.
#      The second rule also carries a role, a label and an excluded attribute, which an entity-level answer must ignore.
def _entity(p1, e1, m1, x1, p2, e2, m2, x2):
    rules = [rule(pick(PERM_T[:N_P_ENT], p1), pick(ESET_T[:N_E_ENT], e1), _grp(m1), xe=pick(XE_T, x1)),
             rule(pick(PERM_T[:N_P_ENT], p2), pick(ESET_T[:N_E_ENT], e2), _grp(m2), xe=pick(XE_T, x2), roles=('r',), labels=('l',), xa='A.x')]
    return check(rules, 'entity', g_user=('g1',))


def entity_p1_view(e1: int, m1: bool, x1: int, p2: int, e2: int, m2: bool, x2: int) -> bool:
    """
    pre: 0 <= e1 < N_E_ENT and 0 <= x1 < N_XE and 0 <= p2 < N_P_ENT and 0 <= e2 < N_E_ENT and 0 <= x2 < N_XE
    post: _
    """
    return ok(_entity(0, e1, m1, x1, p2, e2, m2, x2))


def entity_p1_edit(e1: int, m1: bool, x1: int, p2: int, e2: int, m2: bool, x2: int) -> bool:
    """
    pre: 0 <= e1 < N_E_ENT and 0 <= x1 < N_XE and 0 <= p2 < N_P_ENT and 0 <= e2 < N_E_ENT and 0 <= x2 < N_XE
    post: _
    """
    return ok(_entity(1, e1, m1, x1, p2, e2, m2, x2))


# ---- attribute targets: two rules; symbolic entity list, match, excluded entity, excluded attribute of both rules
#      (+ permission of the second rule); one harness per mode (exact / deny / grant) and entity list of the first rule.
def _attr(mode, e1, m1, x1, a1, e2, m2, x2, a2, p2):
    rules = [rule('view', pick(ESET_T[:3], e1), _grp(m1), xe=pick(XE_T[:3], x1), xa=pick(XA_T[:N_XA_ATTR], a1)),
             rule(pick(PERM_T[:N_P_ATTR], p2), pick(ESET_T[:3], e2), _grp(m2), xe=pick(XE_T[:3], x2), xa=pick(XA_T[:N_XA_ATTR], a2))]
    return check(rules, 'attr', mode, g_user=('g1',), queries=('view', 'edit'))


def _mk_attr(mode, e1):
    def h(m1: bool, x1: int, a1: int, e2: int, m2: bool, x2: int, a2: int, p2: int) -> bool:
        """
        pre: 0 <= x1 < 3 and 0 <= a1 < N_XA_ATTR and 0 <= e2 < 3 and 0 <= x2 < 3 and 0 <= a2 < N_XA_ATTR and 0 <= p2 < N_P_ATTR
        post: _
        """
        return ok(_attr(mode, e1, m1, x1, a1, e2, m2, x2, a2, p2))
    h.__name__ = h.__qualname__ = 'attr_%s_e1_%s' % (mode, ''.join(ESET_T[e1]))
    return h


ATTR_HARNESSES = []
for _mode in ('exact', 'deny', 'grant'):
    for _e1 in range(3):
        _h = _mk_attr(_mode, _e1)
        globals()[_h.__name__] = _h
        ATTR_HARNESSES.append(_h.__name__)


def attr_rule_order(e1: bool, m1: bool, x1: int, a1: int, e2: bool, m2: bool, a2: int) -> bool:
    """
    pre: 0 <= x1 < 3 and 0 <= a1 < 3 and 0 <= a2 < 3
    post: _
    """
    # both rules cover A (so they share A's rule set); asserted: same answers under both iteration orders of that set
    rules = [rule('view', ('A', 'B') if e1 else ('A',), _grp(m1), xe=pick(XE_T[:3], x1), xa=pick(XA_T[:3], a1)),
             rule('view', ('A', 'B') if e2 else ('A',), _grp(m2), xa=pick(XA_T[:3], a2))]
    return ok(check(rules, 'attr', 'order', g_user=('g1',), queries=('view',)))


# ---- object targets
def object_conditions(g1: bool, r1: bool, l1: bool, g2: bool, r2: bool, l2: bool, ug: bool, ur: bool, ol: bool) -> bool:
    """
    post: _
    """
    # rule 1 covers A, A2 and B, rule 2 only A and A2; every requirement of both rules and everything the getters
    # return is symbolic.  Roles and labels differ between the objects (a, b: role iff ur; a2: role iff not ur;
    # a, a2: label iff ol; b: label iff not ol) so that an answer computed from another object's roles/labels shows.
    rules = [rule('view', ('A', 'B'), _one(g1, 'g1'), _one(r1, 'r'), _one(l1, 'l')),
             rule('view', ('A',), _one(g2, 'g1'), _one(r2, 'r'), _one(l2, 'l'))]
    if ur: roles = {'a': ('r',), 'a2': (), 'b': ('r',)}
    else: roles = {'a': (), 'a2': ('r',), 'b': ()}
    if ol: labels = {'a': ('l',), 'a2': ('l',), 'b': ()}
    else: labels = {'a': (), 'a2': (), 'b': ('l',)}
    return ok(check(rules, 'object', g_user=_one(ug, 'g1'), roles=roles, labels=labels))


def _object_excl(rest, e1, m1, x1, e2, m2, x2):
    rules = [rule('view', pick(ESET_T[:N_E_ENT], e1), _grp(m1), xe=pick(XE_T, x1)),
             rule('view', pick(ESET_T[:N_E_ENT], e2), _grp(m2), xe=pick(XE_T, x2))]
    skip = None
    if rest:
        region = excluded_somewhere(rules)
        skip = lambda kind, n: OBJ_ENT[n] in region
    return check(rules, 'object', g_user=('g1',), skip=skip)


def object_exclusions(e1: int, m1: bool, x1: int, e2: int, m2: bool, x2: int) -> bool:
    """
    pre: 0 <= e1 < N_E_ENT and 0 <= x1 < N_XE and 0 <= e2 < N_E_ENT and 0 <= x2 < N_XE
    post: _
    """
    return ok(_object_excl(False, e1, m1, x1, e2, m2, x2))


def object_exclusions_rest(e1: int, m1: bool, x1: int, e2: int, m2: bool, x2: int) -> bool:
    """
    pre: 0 <= e1 < N_E_ENT and 0 <= x1 < N_XE and 0 <= e2 < N_E_ENT and 0 <= x2 < N_XE
    post: _
    """
    return ok(_object_excl(True, e1, m1, x1, e2, m2, x2))


USERKIND_T = ('none', 'plain', 'a', 'b', 'sub')
ROLE_T = ((), ('self',), ('r',), ('r', 'self'))


def object_userkinds(uk: int, rr: int, ur: bool, rg: bool, ga: bool, gu: bool) -> bool:
    """
    pre: 0 <= uk < 5 and 0 <= rr < 4
    post: _
    """
    # who asks: nobody (None), a plain User object, the object a itself, the object b itself (role 'self' on itself;
    # the getter registered for class User does not apply to an entity instance; None gets no groups and no roles)
    rules = [rule('view', ('A', 'B'), _one(rg, 'g1'), pick(ROLE_T, rr))]
    roles = {'a': _one(ur, 'r'), 'a2': _one(ur, 'r'), 'b': _one(ur, 'r')}
    return ok(check(rules, ('object', 'entity'), userkind=pick(USERKIND_T, uk), g_any=_one(ga, 'g1'), g_user=_one(gu, 'g1'),
                    roles=roles, trace_decl=True))


# ---- names: subset semantics of groups / roles / labels, one rule, two names, every getter form
def groups(rg: int, ga: int, gu: int, uk: int) -> bool:
    """
    pre: 0 <= rg < 4 and 0 <= ga < 4 and 0 <= gu < 4 and 0 <= uk < 4
    post: _
    """
    rules = [rule('view', ('A', 'B'), pick(NAMES2_T, rg))]
    return ok(check(rules, ('entity', 'attr', 'object'), userkind=pick(('none', 'plain', 'a', 'sub'), uk), g_any=pick(NAMES2_T, ga),
                    g_user=pick(NAMES2_T, gu), queries=('view',), trace_decl=True))


def roles(rr: int, ra: int, rb: int, uk: int) -> bool:
    """
    pre: 0 <= rr < 4 and 0 <= ra < 4 and 0 <= rb < 4 and 1 <= uk < 3
    post: _
    """
    # what the rule asks for, what the user has on a and on b: subsets of {n1, n2} (a2: both names); the user is a
    # plain object or the object a itself (then 'self' is added to its roles on a, which must not satisfy n1/n2)
    rules = [rule('view', ('A', 'B'), (), pick(NAMES2_T, rr))]
    rl = {'a': pick(NAMES2_T, ra), 'a2': ('n1', 'n2'), 'b': pick(NAMES2_T, rb)}
    return ok(check(rules, 'object', userkind=pick(USERKIND_T[:3], uk), roles=rl, queries=('view',), trace_decl=True))


def labels(rl: int, la: int, lb: int, l2: bool) -> bool:
    """
    pre: 0 <= rl < 4 and 0 <= la < 4 and 0 <= lb < 4
    post: _
    """
    rules = [rule('view', ('A', 'B'), (), (), pick(NAMES2_T, rl))]
    lab = {'a': pick(NAMES2_T, la), 'a2': _one(l2, 'n2'), 'b': pick(NAMES2_T, lb)}
    return ok(check(rules, 'object', labels=lab, queries=('view',), trace_decl=True))


# ---- permission names and the four can_* functions
def permissions(p1: int, m1: bool, p2: int, m2: bool, e2: bool) -> bool:
    """
    pre: 0 <= p1 < 6 and 0 <= p2 < 6
    post: _
    """
    rules = [rule(pick(PERM_T, p1), ('A', 'B'), _grp(m1)), rule(pick(PERM_T, p2), ('A',) if e2 else ('A', 'B'), _grp(m2))]
    # (attribute targets share the permission lookup with entity targets; their own harnesses ask can_view and can_edit)
    return ok(check(rules, ('entity', 'object'), g_user=('g1',), trace_decl=True))


# ---- to_json: an object the user may not view is never emitted
SCEN_T = ('a', 'a+b', 'b+a_set', 'a2,b')
EMITTED = {'a': ('a',), 'a+b': ('a', 'b'), 'b+a_set': ('b', 'a'), 'a2,b': ('a2', 'b')}


def _to_json(rest, sc, e1, m1, x1, e2, m2, x2):
    global NPATHS
    NPATHS += 1
    rules = [rule('view', pick(ESET_T[:3], e1), _grp(m1), xe=pick(XE_T[:3], x1)),
             rule('edit', pick(ESET_T[1:N_E_JSON], e2), _grp(m2), xe=pick(XE_T[:N_XE_JSON], x2))]
    scen = pick(SCEN_T, sc)
    with _untraced():
        if not concrete((rules, scen)): raise RuntimeError('symbolic value left in the decoded declarations: %s' % BAD)
        if rest and any(OBJ_ENT[n] in excluded_somewhere(rules) for n in EMITTED[scen]): return True
        ug = user_groups_of('plain', (), ('g1',))
        none = {o: set() for o in OBJ_NAMES}
        viewable = {n: any(ref_object(rules, ug, none, none, p, n) for p in ('view', 'edit')) for n in OBJ_NAMES}
        want_error = not all(viewable[n] for n in EMITTED[scen])
        set_context((), ('g1',), {}, {})

        def body(o, first):
            core.set_current_user(User())
            try:
                if scen == 'a': data, inc = [o['a']], ()
                elif scen == 'a+b': data, inc = [o['a']], (A.b,)
                elif scen == 'b+a_set': data, inc = {'x': o['b']}, (B.a_set,)
                else: data, inc = [o['a2'], o['b']], ()
                try:
                    with (_traced() if first else _Null()):
                        text = db.to_json(data, include=inc, with_schema=False)
                except core.PermissionError:
                    return 'PermissionError'
                objs = json.loads(text)['objects']
                return sorted((cls, pk) for cls, d in objs.items() for pk in d)
            finally:
                core.set_current_user(None)
        want = 'PermissionError' if want_error else sorted(({'a': 'A', 'a2': 'A2', 'b': 'B'}[n], {'a': '1', 'a2': '2', 'b': '1'}[n]) for n in EMITTED[scen])
        got = both_orders(rules, body)
        LAST.clear()
        LAST.update(rules=rules, scenario=scen, want=want, got=got, viewable=viewable)
        return all(g == want for g in got)


def _to_json_rl(sc, use_label, fa, fa2, fb, grp):
    """to_json with a rule that selects by role or by label: objects reached through include= are subject to the same per-object
    check as the objects passed in"""
    global NPATHS
    NPATHS += 1
    scen = pick(SCEN_T, sc)
    sel = dict(labels=('l',)) if use_label else dict(roles=('r',))
    rules = [rule('view', ('A', 'B'), ('g1',) if grp else (), **sel)]
    with _untraced():
        if not concrete((rules, scen)): raise RuntimeError('symbolic value left in the decoded declarations: %s' % BAD)
        has = {'a': fa, 'a2': fa2, 'b': fb}
        ug = user_groups_of('plain', (), ('g1',))
        roles = {o: (set() if use_label or not has[o] else {'r'}) for o in OBJ_NAMES}
        labels = {o: ({'l'} if use_label and has[o] else set()) for o in OBJ_NAMES}
        viewable = {n: ref_object(rules, ug, roles, labels, 'view', n) for n in OBJ_NAMES}
        want_error = not all(viewable[n] for n in EMITTED[scen])
        set_context((), ('g1',), {o: tuple(sorted(v)) for o, v in roles.items()}, {o: tuple(sorted(v)) for o, v in labels.items()})

        def body(o, first):
            core.set_current_user(User())
            try:
                if scen == 'a': data, inc = [o['a']], ()
                elif scen == 'a+b': data, inc = [o['a']], (A.b,)
                elif scen == 'b+a_set': data, inc = {'x': o['b']}, (B.a_set,)
                else: data, inc = [o['a2'], o['b']], ()
                try:
                    with (_traced() if first else _Null()):
                        text = db.to_json(data, include=inc, with_schema=False)
                except core.PermissionError:
                    return 'PermissionError'
                objs = json.loads(text)['objects']
                return sorted((cls, pk) for cls, d in objs.items() for pk in d)
            finally:
                core.set_current_user(None)
        want = 'PermissionError' if want_error else sorted(({'a': 'A', 'a2': 'A2', 'b': 'B'}[n], {'a': '1', 'a2': '2', 'b': '1'}[n]) for n in EMITTED[scen])
        got = both_orders(rules, body)
        LAST.clear()
        LAST.update(rules=rules, scenario=scen, want=want, got=got, viewable=viewable)
        return all(g == want for g in got)


def to_json_roles_labels(sc: int, use_label: bool, fa: bool, fa2: bool, fb: bool, grp: bool) -> bool:
    """
    pre: 0 <= sc < 4
    post: _
    """
    use_label, fa, fa2, fb, grp = bool(use_label), bool(fa), bool(fa2), bool(fb), bool(grp)
    return ok(_to_json_rl(sc, True if use_label else False, True if fa else False, True if fa2 else False, True if fb else False, True if grp else False))


N_XE_JSON = 4 if THOROUGH else 3
N_E_JSON = 5 if THOROUGH else 3       # second rule: entity lists ESET_T[1:N_E_JSON]


def to_json_objects(sc: int, e1: int, m1: bool, x1: int, e2: int, m2: bool, x2: int) -> bool:
    """
    pre: 0 <= sc < 4 and 0 <= e1 < 3 and 0 <= x1 < 3 and 0 <= e2 < N_E_JSON - 1 and 0 <= x2 < N_XE_JSON
    post: _
    """
    return ok(_to_json(False, sc, e1, m1, x1, e2, m2, x2))


def to_json_objects_rest(sc: int, e1: int, m1: bool, x1: int, e2: int, m2: bool, x2: int) -> bool:
    """
    pre: 0 <= sc < 4 and 0 <= e1 < 3 and 0 <= x1 < 3 and 0 <= e2 < N_E_JSON - 1 and 0 <= x2 < N_XE_JSON
    post: _
    """
    return ok(_to_json(True, sc, e1, m1, x1, e2, m2, x2))


# ---- the schema part of to_json: exactly the viewable entities / attributes
def schema_expected(rules, ug):
    view_e = lambda e: any(ref_entity(rules, ug, p, e) for p in ('view', 'edit'))
    view_a = lambda t: any(ref_attr(rules, ug, p, t)[1] for p in ('view', 'edit'))
    out = {}
    for e in ENT_NAMES:
        if not view_e(e): continue
        attrs = []
        for t in ATTR_NAMES:
            if ATTR_ENT[t] != e or not view_a(t): continue
            r = REVERSE.get(t)
            if r is not None and not (view_e(ATTR_ENT[r]) and view_a(r)): continue
            attrs.append(t.split('.')[1])
        out[e] = sorted(attrs)
    return out


def schema(e1: int, m1: bool, x1: int, a1: int, e2: int, a2: int) -> bool:
    """
    pre: 0 <= e1 < 3 and 0 <= x1 < 3 and 0 <= a1 < 3 and 0 <= e2 < 3 and 0 <= a2 < 3
    post: _
    """
    global NPATHS
    NPATHS += 1
    rules = [rule('view', pick(ESET_T[:3], e1), _grp(m1), xe=pick(XE_T[:3], x1), xa=pick(XA_T[:3], a1)),
             rule('view', pick(ESET_T[:3], e2), (), xa=pick(XA_T[:3], a2))]
    with _untraced():
        if not concrete(rules): raise RuntimeError('symbolic value left in the decoded declarations: %s' % BAD)
        want = schema_expected(rules, user_groups_of('plain', (), ('g1',)))
        set_context((), ('g1',), {}, {})

        def body(o, first):
            core.set_current_user(User())
            try:
                with (_traced() if first else _Null()):
                    d = db._get_schema_dict()
                return {e['name']: sorted(a['name'] for a in e['newAttrs']) for e in d}
            finally:
                core.set_current_user(None)
        got = both_orders(rules, body)
        LAST.clear()
        LAST.update(rules=rules, want=want, got=got)
        return ok(all(g == want for g in got))


HARNESSES = (['entity_p1_view', 'entity_p1_edit'] + ATTR_HARNESSES + ['attr_rule_order'] +
             ['object_conditions', 'object_exclusions', 'object_exclusions_rest', 'object_userkinds', 'groups', 'roles', 'labels',
              'permissions', 'to_json_objects', 'to_json_objects_rest', 'to_json_roles_labels', 'schema'])


# ------------------------------------------------------------------------------------------- classification of findings
def explain(fn_name, cex):
    """stable key for a counterexample of harness `fn_name` (re-runs it untraced and looks at what went wrong)"""
    setup()
    LAST.clear()
    try:
        if globals()[fn_name](**cex): return None
    except Exception:
        return None
    rules = LAST.get('rules')
    if rules is None: return None
    if 'bad' in LAST:
        keys = set()
        ug = user_groups_of(LAST['userkind'], LAST['g_any'], LAST['g_user'])
        for q, kind, n, order, answers, (lo, ex, up) in LAST['bad']:
            if order == 'order':
                keys.add('5:%s-answer-depends-on-rule-iteration-order' % kind); continue
            got = answers[0] if answers[0] != ex else answers[-1]
            if kind == 'object':
                if got is True and OBJ_ENT[n] in excluded_somewhere(rules): keys.add('1:object-entity-exclusion-ignored')
                else: keys.add('9:object-other')
            elif kind == 'attr' and n in REVERSE:
                if answers[0] != answers[-1]: keys.add('9:attr-repeated-check-differs')
                elif got is True and not up: keys.add('1:attr-granted-though-neither-side-grants')
                elif got is True:
                    fwd = any(side(rules, ug, p, n) for p in q_perms(q))
                    keys.add('2:attr-reverse-side-denial-ignored' if fwd else '3:attr-granted-by-reverse-side-only')
                else: keys.add('4:attr-denied-though-both-sides-grant' if lo else '9:attr-other')
            else: keys.add('9:%s-other' % kind)
        return sorted(keys)[0].split(':', 1)[1] if keys else None
    if 'scenario' in LAST:
        if LAST['want'] == 'PermissionError' and any(g != 'PermissionError' for g in LAST['got']):
            if any(OBJ_ENT[n] in excluded_somewhere(rules) and not LAST['viewable'][n] for n in EMITTED[LAST['scenario']]):
                return 'object-entity-exclusion-ignored'
            return 'to_json-emits-unviewable-object'
        return 'to_json-other'
    if 'want' in LAST:
        extra_ok = True
        for g in LAST['got']:
            for e in set(g) | set(LAST['want']):
                w, h = set(LAST['want'].get(e, ())), set(g.get(e, ()))
                if (e in g) != (e in LAST['want']) or w - h or any(e + '.' + a not in REVERSE for a in h - w): extra_ok = False
        return 'schema-lists-unviewable-relationship-attribute' if extra_ok else 'schema-other'
    return None
