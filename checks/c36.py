"""C36 - a forked process never uses its parent's database connection (pool logic; CrossHair, symbolic fork point).

See checks/h_c36.py for the fork model (os.getpid stub whose answer changes at a symbolic point), the scenario and the
reference statement F1-F5.
"""
import os
from engine.core import Report
from engine import ch

REGION2_NOTE = ('db.disconnect() called in the child before the child ever connected: Pool.disconnect has no pid check, pool.con is still the '
                'parent\'s connection object and is closed (and never recorded in forked_connections). The main families exclude exactly the '
                'calls of such a disconnect step; fork_then_disconnect_first_* assert them strictly. A disconnect after the child has connected '
                '(the parent connection then sits in forked_connections) is asserted everywhere.')
REGION_NOTE = ('a fork while a session is open: the child inherits the session object with the parent\'s connection in it and pony '
               'checks the pid only in Pool.connect, so the inherited session goes on (and ends with rollback/commit/release) on the '
               'parent\'s connection. fork_mid_session_* assert everything outside that inherited session (later child sessions, '
               'retention, pool pid); fork_inherited_session_* assert it strictly.')


def classify(spec, cex):
    from checks import h_c36 as h
    h.setup()
    try:
        r, why, journal, fork_n = h.explain(spec['fn'], **cex)
    except Exception:
        return None
    if r: return None
    text = ' ; '.join(why)
    if spec['fn'].startswith('fork_inherited_session') and any("on the parent's" in w for w in why):
        # everything wrong lies inside the inherited session <=> the same arguments pass with the region excluded
        twin = spec['fn'].replace('fork_inherited_session', 'fork_mid_session')
        if getattr(h, twin)(d=0, **cex):
            return 'fork-inside-open-session-child-continues-on-parent-connection'
    if spec['fn'].startswith('fork_then_disconnect_first') and any("on the parent's" in w for w in why):
        # everything wrong lies inside "disconnect() before the child ever connected" <=> passes with that region excluded
        kind = spec['fn'].rsplit('_', 1)[1]
        if h._scenario(kind, 'dbapi', cex['f'], cex['s1'], cex['s2'], 2, False, 0, cex['d']):
            return 'child-disconnect-before-first-connect-closes-parent-connection'
    if "has no attribute 'pid'" in text:
        return 'sqlitepool-partial-connect-no-pid'
    return None


def run(tier, seed, only=None):
    from pony.orm import core, dbapiprovider as dp
    from pony.orm.dbproviders import sqlite as ps
    from engine import env
    env.install_driver_stubs()
    from pony.orm.dbproviders import postgres as ppg, oracle as pora
    rep = Report('C36', 'fault_enumeration',
                 'CrossHair explores session sequences on the real Pool / SQLitePool / PGPool / OraPool over a recording fake DB-API '
                 'while os.getpid (as seen by pony\'s pool modules) changes its answer at a symbolic point - the f-th getpid() call, or '
                 'right before the f-th DB-API call. Asserted from the call journal (every call carries the pid it was made under, every '
                 'connection the pid it was opened under): the child makes no call on a parent connection, the parent\'s connection / '
                 'session pool is retained in forked_connections / forked_pools, the child works on its own new connection, no process '
                 'opens a second connection while it holds one. Only "Confirmed over all paths" counts.')
    rep.fn(dp.Pool.__init__, dp.Pool.connect, dp.Pool._connect, dp.Pool.release, dp.Pool.drop, ps.SQLitePool.__init__, ps.SQLitePool._connect,
           ps.SQLitePool.drop, ppg.PGPool._connect, ppg.PGPool.release, pora.OraPool.__init__, pora.OraPool.connect, pora.OraPool.release,
           pora.OraPool.drop, core.SessionCache.connect, core.SessionCache.close, core.SessionCache.reconnect)
    T = 150 if tier == 'quick' else 900
    if tier == 'thorough':
        os.environ['C36_FULL'] = '1'
    from checks import h_c36
    specs = [dict(module='checks.h_c36', fn=f, cond_timeout=T, path_timeout=T / 2, setup='setup') for f in h_c36.HARNESSES]
    if only: specs = [s for s in specs if only in s['fn']]
    rep.bounds = {
        'fork point': 'fork_at_getpid_*: before the f-th getpid() call, f in 0..8 (a scenario makes at most 5); fork_mid_session_* / '
                      'fork_inherited_session_*: before DB-API call f, every position of the scenario (<= NMAX=%d calls, checked)' % h_c36.NMAX,
        'disconnect': 'db.disconnect() at none / after one of the 4 sessions (symbolic d in 0..4), in whichever process runs then; quick: with d != 0 the '
                      'last symbolic session shape is fixed to immediate (thorough: free)',
        'sessions': '3 sessions with symbolic shapes from %r (fork_mid_session: 2 symbolic + 1 immediate), body of the 2nd may raise, '
                    'then one more immediate write session' % (list(h_c36.SHAPES),),
        'single_fault_*': 'one failing DB-API call at a symbolic position (driver OperationalError, reconnectable for pg/mysql/oracle) '
                          'combined with a fork at a symbolic getpid() call; quick: first session shape symbolic, second immediate',
        'pools': ['SQLitePool(file)', "SQLitePool(':memory:')", 'PGPool', 'Pool under MySQLProvider', 'OraPool over a stand-in cx_Oracle.SessionPool'],
    }
    rep.assumptions = [
        'the fork is simulated in one interpreter: after the fork point the run is the child, which inherited all Python state; the parent is '
        'represented by its connection, which must stay untouched',
        'os.getpid is stubbed only as seen by pony.orm.dbapiprovider and pony.orm.dbproviders.oracle (their `os` global is a delegating shim)',
        'fake DB-API (engine/fakedb.py); cx_Oracle.SessionPool is a stand-in that hands out recorded connections',
        'SQLite pools start with pid = PARENT (the binding thread connected once in the parent)',
        'pony.orm.core.time stubbed; concrete bulk of each path runs outside CrossHair\'s opcode tracer (fakedb.untraced), the comparisons of the '
        'symbolic fork/fault numbers run under it',
        'known region: ' + REGION_NOTE,
        'known region 2: ' + REGION2_NOTE,
        'single_fault_*: F4 (no second open connection) is not asserted when the fault hit a statement inside SQLitePool._connect (C19 finding)',
    ]
    rep.trusted = ['crosshair-tool 0.0.110', 'z3', 'engine/fakedb.py (driver model, ForkClock)', 'reference F1-F5 in checks/h_c36.py',
                   'real fork() semantics and cross-process data visibility are outside the check']
    ch.run_harnesses(rep, specs, classify)
    return rep
