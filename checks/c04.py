"""C04 - outer-scope expressions inside a query are evaluated exactly as Python would.

(1) source regeneration: for every enumerated external expression e, the real PythonTranslator (ast2src) regenerates
    source, CPython parses it again, and z3 (E2/ExprEq) decides whether the re-parsed tree can evaluate differently from
    e for ANY values of the caller-scope names.
(2) tie to what reaches the database: for integer-valued expressions the real query pipeline (string and generator form:
    decompiler -> PreTranslator -> create_extractors -> extract_vars -> SQL parameter) is run in a caller scope given by
    the solver's witness or a default assignment; the bound parameter must equal eval(e) in that scope.
"""
import ast, random
from engine.core import Report, Ob, HOLDS, CEX, REJECTED, INCONCLUSIVE
from engine import expreq, exprgen


def classify(tree):
    for n in ast.walk(tree):
        if isinstance(n, ast.FormattedValue) and n.format_spec is not None: return 'fstring-format-spec'
    for n in ast.walk(tree):
        if isinstance(n, ast.JoinedStr):
            for v in n.values:
                if isinstance(v, ast.Constant) and ('{' in str(v.value) or '}' in str(v.value)): return 'fstring-literal-brace'
    parents = {}
    for n in ast.walk(tree):
        for ch in ast.iter_child_nodes(n): parents[ch] = n
    for n in ast.walk(tree):
        if isinstance(n, ast.IfExp) and n in parents and not isinstance(parents[n], (ast.Expression,)): return 'ifexp-as-operand'
    for n in ast.walk(tree):
        if isinstance(n, ast.BinOp) and isinstance(n.op, ast.Pow): return 'power'
        if isinstance(n, ast.Lambda): return 'lambda'
    for n in ast.walk(tree):
        if isinstance(n, ast.BinOp) and isinstance(n.right, ast.BinOp) and type(n.op) in (ast.Sub, ast.Div, ast.FloorDiv, ast.Mod, ast.LShift, ast.RShift):
            return 'right-nested-nonassociative-operator'
    return 'plain'


def regen(e):
    from pony.orm.asttranslation import ast2src
    tree = ast.parse(e, mode='eval').body
    name = 'regen: %s' % e
    try:
        src2 = ast2src(ast.parse(e, mode='eval').body)
    except Exception as ex:
        return Ob(name, 'z3', REJECTED, detail='%s: %s' % (type(ex).__name__, str(ex)[:80])), None
    try:
        tree2 = ast.parse(src2, mode='eval').body
    except SyntaxError as ex:
        return Ob(name, 'z3', REJECTED, detail='regenerated source does not compile: %r' % src2), None
    try:
        verdict, names, model, how, dt = expreq.differ(tree, tree2, 'value')
    except expreq.NotEncodable as ex:
        return Ob(name, 'z3', INCONCLUSIVE, detail='not encodable: %s' % ex), None
    if verdict == 'unsat': return Ob(name, 'z3', HOLDS, detail=src2, time_s=dt), None
    if verdict == 'unknown': return Ob(name, 'z3', INCONCLUSIVE, detail='solver unknown', time_s=dt), None
    if verdict == 'spurious':
        return Ob(name, 'z3', INCONCLUSIVE, detail='only non-reproducing models: %r | %s' % (src2, how), time_s=dt), None
    ob = Ob(name, 'z3', CEX, detail='regenerated %r | %s' % (src2, how), cex={'expr': e, 'regenerated': src2, 'names': names}, time_s=dt,
            reproduced=True, key='regen:' + classify(tree))
    ob.replay = ('from pony.orm.asttranslation import ast2src\nimport ast\ne = %r\nprint("source     :", e)\n'
                 'print("regenerated:", ast2src(ast.parse(e, mode="eval").body))\nprint("differ for", %r, %r)\nraise SystemExit(1)\n' % (e, names, how))
    return ob, names


def regen_decompiled(e):
    """the same question for the tree shape the *decompiler* hands to the regenerator (generator/lambda queries): folded
    negative constants, FORMAT_VALUE shapes etc.  D = decompile(lambda: e); compare reparse(ast2src(D)) with D itself,
    so that a decompiler defect (C03) is not reported here."""
    import copy
    from pony.orm.asttranslation import ast2src
    from pony.orm.decompiling import decompile
    name = 'regen-decompiled: %s' % e
    try:
        fn = eval('lambda: (%s)' % e, {})
        D = decompile(fn)[0]
        body = D.body if isinstance(D, ast.Lambda) else D
        ref = copy.deepcopy(body)
        for n in ast.walk(ref):
            if hasattr(n, 'src'): del n.src
        compile(ast.fix_missing_locations(ast.Expression(copy.deepcopy(ref))), '<d>', 'eval')
    except Exception as ex:
        return Ob(name, 'z3', REJECTED, detail='decompile: %s: %s' % (type(ex).__name__, str(ex)[:80]))
    try:
        src2 = ast2src(body)
    except Exception as ex:
        return Ob(name, 'z3', REJECTED, detail='%s: %s' % (type(ex).__name__, str(ex)[:80]))
    try:
        tree2 = ast.parse(src2, mode='eval').body
    except SyntaxError:
        return Ob(name, 'z3', REJECTED, detail='regenerated source does not compile: %r' % src2)
    try:
        verdict, names, model, how, dt = expreq.differ(ref, tree2, 'value')
    except expreq.NotEncodable as ex:
        return Ob(name, 'z3', INCONCLUSIVE, detail='not encodable: %s' % ex)
    if verdict == 'unsat': return Ob(name, 'z3', HOLDS, detail=src2, time_s=dt)
    if verdict == 'unknown': return Ob(name, 'z3', INCONCLUSIVE, detail='solver unknown', time_s=dt)
    if verdict == 'spurious':
        return Ob(name, 'z3', INCONCLUSIVE, detail='only non-reproducing models: %r | %s' % (src2, how), time_s=dt)
    ob = Ob(name, 'z3', CEX, detail='decompiled tree %r regenerated as %r | %s' % (ast.unparse(ref), src2, how),
            cex={'expr': e, 'decompiled': ast.unparse(ref), 'regenerated': src2, 'names': names}, time_s=dt, reproduced=True,
            key='regen-decompiled:' + classify_decompiled(ref))
    ob.replay = ('from pony.orm.asttranslation import ast2src\nfrom pony.orm.decompiling import decompile\nimport ast\ne = %r\n'
                 'D = decompile(eval("lambda: (" + e + ")"))[0].body\nprint("source     :", e)\nprint("decompiled :", ast.dump(D)[:300])\n'
                 'print("regenerated:", ast2src(D))\nprint("differ for", %r, %r)\nraise SystemExit(1)\n' % (e, names, how))
    return ob


def classify_decompiled(tree):
    for n in ast.walk(tree):
        if isinstance(n, ast.BinOp) and isinstance(n.op, ast.Pow) and isinstance(n.left, ast.Constant) \
                and isinstance(n.left.value, (int, float)) and n.left.value < 0:
            return 'negative-constant-base-of-power'
    for n in ast.walk(tree):
        if isinstance(n, ast.FormattedValue) and n.format_spec is not None: return 'fstring-format-spec'
    return classify(tree)


_db = None


def get_db():
    global _db
    if _db is None:
        from pony.orm import Database, Required
        _db = Database()
        class T(_db.Entity):
            a = Required(int, size=64)
        _db.bind('sqlite', ':memory:')
        _db.generate_mapping(create_tables=True)
    return _db


class Obj(object):
    """caller-scope value with attributes/methods/subscripts for the tie (plain Python, deterministic)"""
    def __init__(self, v): self.v = v
    @property
    def q(self): return Obj(self.v * 3 + 1)
    @property
    def r(self): return self.v * 5 + 2
    def m(self, *a): return self.v + sum(int(x) for x in a)
    def __getitem__(self, k): return self.v + (k if isinstance(k, int) else 7)
    def __int__(self): return self.v
    def __index__(self): return self.v
    def __contains__(self, x): return int(x) % 2 == self.v % 2 if isinstance(x, (int, Obj)) else False
    def __iter__(self): return iter((self.v, self.v + 1))
    def __len__(self): return 2


def _r(v):
    if isinstance(v, int) and not isinstance(v, bool) and abs(v) >= 10 ** 40: return '<int of %d bits>' % v.bit_length()
    try: return repr(v)[:200]
    except Exception: return '<unprintable %s>' % type(v).__name__


def tie(e, scope_vals):
    """run the real pipeline; the single SQL parameter must equal eval(e)"""
    from pony.orm import core, db_session
    db = get_db()
    scope = dict(scope_vals)
    scope['f'] = lambda *a, **k: sum(int(x) for x in a) + sum(int(x) for x in k.values()) + 1
    import signal
    def _alarm(*a): raise TimeoutError()
    old = signal.signal(signal.SIGALRM, _alarm)
    signal.setitimer(signal.ITIMER_REAL, 1.0)
    try:
        expected = eval(e, {}, dict(scope))
    except (Exception, TimeoutError):
        return None
    finally:
        signal.setitimer(signal.ITIMER_REAL, 0)
        signal.signal(signal.SIGALRM, old)
    if isinstance(expected, bool) or not isinstance(expected, int) or abs(expected) >= 2 ** 62:
        return None
    obs = []
    # and/or/not/conditional expressions used as VALUES inside a decompiled condition are C03's known findings: such
    # expressions are tied through the string form only (the regeneration step itself is decided by z3 for them above)
    jumpy = any(isinstance(n, (ast.BoolOp, ast.IfExp)) or (isinstance(n, ast.UnaryOp) and isinstance(n.op, ast.Not))
                for n in ast.walk(ast.parse(e, mode='eval')))
    for form in ('string',) if jumpy else ('string', 'generator', 'closure', 'shadow'):
        name = 'tie[%s]: %s' % (form, e)
        old = signal.signal(signal.SIGALRM, _alarm)
        signal.setitimer(signal.ITIMER_REAL, 3.0)      # a wrongly bound scope can make `a ** b` astronomically expensive
        try:
            with db_session:
                if form == 'string':
                    q = core.select('(x for x in T if x.a == (%s))' % e, {'T': db.T}, dict(scope))
                elif form == 'closure':
                    # the lambda's free variables live in closure cells; the frame that applies it has locals of the same names
                    ns = {}
                    exec('def make(a, b, c, d, f):\n    return lambda x: x.a == (%s)\n'
                         'def apply(T, fn, a, b, c, d, f):\n    return T.select(fn)\n' % e, ns)
                    fn = ns['make'](scope.get('a'), scope.get('b'), scope.get('c'), scope.get('d'), scope['f'])
                    q = ns['apply'](db.T, fn, 101, 102, 103, 104, None)
                elif form == 'shadow':
                    # a generator inside a function whose locals shadow module-level names of the same spelling
                    ns = {'a': 201, 'b': 202, 'c': 203, 'd': 204, 'f': None}
                    exec('def run(T, select, a, b, c, d, f):\n    return select(x for x in T if x.a == (%s))\n' % e, ns)
                    q = ns['run'](db.T, core.select, scope.get('a'), scope.get('b'), scope.get('c'), scope.get('d'), scope['f'])
                else:
                    g = eval('(x for x in T if x.a == (%s))' % e, {'T': db.T}, dict(scope))
                    q = core.select(g)
                sql, args, _, _ = q._construct_sql_and_arguments()
        except TimeoutError:
            obs.append(Ob(name, 'concrete-tie', CEX, detail='the pipeline did not finish in 3 s although eval(e) in the same scope is instant',
                          cex={'expr': e, 'form': form}, reproduced=True, key='tie:timeout',
                          replay='# see checks/c04.py tie(); expression %r form %s: evaluation inside pony did not terminate\nraise SystemExit(1)\n' % (e, form)))
            continue
        except Exception as ex:
            obs.append(Ob(name, 'concrete-tie', REJECTED, detail='%s: %s' % (type(ex).__name__, str(ex)[:80])))
            continue
        finally:
            signal.setitimer(signal.ITIMER_REAL, 0)
            signal.signal(signal.SIGALRM, old)
        args = list(args.values()) if isinstance(args, dict) else list(args)
        if len(args) == 1 and args[0] == expected:
            obs.append(Ob(name, 'concrete-tie', HOLDS, detail='parameter %s' % _r(args[0])))
        elif len(args) == 0 and str(expected) in sql:
            obs.append(Ob(name, 'concrete-tie', HOLDS, detail='inlined constant'))
        elif len(args) != 1:
            obs.append(Ob(name, 'concrete-tie', INCONCLUSIVE, detail='expression was split into %d parameters: %s' % (len(args), sql)))
        else:
            ob = Ob(name, 'concrete-tie', CEX, detail='bound %s, Python evaluates %s' % (_r(args[0]), _r(expected)),
                    cex={'expr': e, 'scope': {k: (v.v if isinstance(v, Obj) else v) for k, v in scope_vals.items()}, 'bound': _r(args[0]), 'python': expected, 'form': form},
                    reproduced=True, key='tie:' + classify(ast.parse(e, mode='eval').body))
            ob.replay = '# see checks/c04.py tie(); expression %r scope %r bound %s python %r\nraise SystemExit(1)\n' % (e, ob.cex['scope'], _r(args[0]), expected)
            obs.append(ob)
    return obs


def run(tier, seed, only=None):
    from pony.orm import asttranslation as A
    rep = Report('C04', 'translation_validation',
                 'Each enumerated external expression is regenerated by the real PythonTranslator and re-parsed; z3 decides for all '
                 'caller-scope values whether the meaning changed. Integer-valued expressions are additionally pushed through the real '
                 'query pipeline and the bound SQL parameter compared with eval().')
    rep.fn(A.PythonTranslator.postIfExp, A.PythonTranslator.postCompare, A.PythonTranslator.postJoinedStr, A.PythonTranslator.postPow,
           A.PythonTranslator.postSubscript, A.PythonTranslator.postCall, A.priority, A.ast2src, A.PreTranslator.dispatch, A.create_extractors)
    from pony.orm import core as _core
    rep.fn(_core.extract_vars, _core.get_globals_and_locals)
    atoms = exprgen.ATOMS_EXT
    rng = random.Random(seed)
    l1 = exprgen.level1(atoms, ext=True)
    l2 = exprgen.level2(atoms, ext=True)
    if tier == 'quick':
        l2 = l2[::5] + rng.sample(l2, 500)
        deep = exprgen.random_deep(atoms, 3, 400, rng, ext=True)
    else:
        deep = exprgen.random_deep(atoms, 3, 8000, rng, ext=True) + exprgen.random_deep(atoms, 4, 3000, rng, ext=True)
    seen = set(); exprs = []
    wide = [w for w in exprgen.wide(('a', 'b', 'c')) if 'x' not in w.replace('xor', '')]      # (the closure forms name the loop variable of C03's templates)
    for e in l1 + wide + l2 + deep:
        if e in seen: continue
        seen.add(e)
        try: ast.parse(e, mode='eval')
        except SyntaxError: continue
        exprs.append(e)
    n = 0
    default = {'a': 2, 'b': 3, 'c': 5, 'd': 7}
    for e in exprs:
        if only and only not in e: continue
        n += 1
        ob, names = regen(e)
        rep.add(ob)
        ob2 = regen_decompiled(e)
        rep.add(ob2)
        if ob2.verdict == CEX: rep.sample({'program': e, 'counterexample': ob2.cex, 'key': ob2.key}, limit=4)
        if ob.verdict == CEX: rep.sample({'program': e, 'counterexample': ob.cex, 'key': ob.key}, limit=4)
        scopes = [default]
        if names and all(abs(v) <= 1000 for v in names.values()): scopes.insert(0, {k: names.get(k, 1) for k in 'abcd'})
        for sc in scopes[:1] if tier == 'quick' and not names else scopes:
            sv = {k: v for k, v in sc.items()}
            if any(tok in e for tok in ('.q', '.r', '.m(', '[')):
                sv = {k: Obj(v) for k, v in sc.items()}
            t = tie(e, sv)
            for o in t or []:
                rep.add(o)
                if o.verdict == CEX: rep.sample({'program': e, 'counterexample': o.cex, 'key': o.key}, limit=6)
    rep.programs = n
    rep.sample({'program': exprs[3], 'obligation': 'z3: exists a,b,c,d . reparse(ast2src(e)) != e  -> unsat'}, limit=7)
    rep.bounds = {'expressions': 'depth 1 exhaustive, depth 2 %s, depth 3%s seeded random' % ('slice+sample' if tier == 'quick' else 'exhaustive', '' if tier == 'quick' else '-4'),
                  'names': 'all integer values with Python truthiness; other operations uninterpreted'}
    rep.assumptions = ['integer-valued abstraction of Python values (engine/expreq.py)', 'a translator exception or non-compiling regenerated source counts as rejected',
                       'the pipeline tie runs on one or two concrete scopes per expression (the solver witness and a default)']
    rep.trusted = ['z3', 'engine/expreq.py', 'CPython ast.parse/eval as the meaning of source']
    return rep
