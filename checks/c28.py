"""C28 - in-place changes to Json and array values are persisted; reading never marks the object as modified.

Deciding step: CrossHair symbolic execution (checks/h_c28.py) of the real tracked containers attached to a real object
loaded from an in-memory SQLite database: the operation (index into a table derived from dir(list)/dir(dict)), its index /
slice / key / repeat-count arguments, the inserted integer and the shapes of the inserted value and of the iterable
argument are symbolic; asserted are the mutation rule M, the wrapping rule W (induction step for operation sequences)
and the read rule R stated in checks/h_c28.py.

On top (not solver-quantified, labelled 'structural' / 'concrete-tie'):
 * structural: every name in dir(list) / dir(dict) is classified as mutating, reading or object-protocol; a concrete probe
   on plain containers confirms the classification (a mutating entry changes a plain container for some witness, a
   reading entry never does), so a mutating method added by a new Python version makes the check fail instead of
   being silently out of scope;
 * concrete tie to the observation point of the property: every table operation, with witness arguments, on a real
   SQLite session; commit; the value read in a NEW session must equal the value the program saw; and two-step
   programs `op; flush(); change the newest nested container; commit` for the operations that insert values.
"""
import os

from engine.core import Report, Ob, HOLDS, CEX
from engine import ch

K_INPLACE = 'inplace-operator-not-tracked'
K_NONLIST = 'items-from-non-list-iterable-not-wrapped'


def classify(spec, cex):
    fn = spec['fn']
    if fn.startswith('l_alias_') or fn.startswith('d_alias_'):
        return K_INPLACE
    if fn.startswith('l_wn_'):
        return K_NONLIST
    return None


QUICK_SLICE_TARGETS = ('jl0', 'jl1', 'ia')


def run(tier, seed, only=None):
    if tier == 'thorough': os.environ['C28_TIER'] = 'thorough'       # read by checks/h_c28.py in the worker processes
    from pony.orm import core, ormtypes as ot, dbapiprovider as dp
    from checks import h_c28 as h
    rep = Report('C28', 'other',
                 'CrossHair symbolic execution of the real TrackedDict/TrackedList/TrackedArray operations on values of a real '
                 'object loaded from SQLite (one db_session per path): operation, index/slice/key/count arguments, inserted '
                 'integer, value shape and iterable shape are symbolic. Asserted: a changed plain value implies the attribute '
                 'bit in _wbits_, status "modified" and the object queued for saving (M); every nested container stays a tracked '
                 'container of the same object/attribute (W, the induction step for sequences); reads leave the object '
                 'untouched (R). Only "Confirmed over all paths" counts as holding.')
    rep.fn(ot.TrackedValue.make, ot.tracked_method, ot.TrackedDict.__init__, ot.TrackedDict.update, ot.TrackedDict.get_untracked,
           ot.TrackedList.__init__, ot.TrackedList.get_untracked, ot.TrackedArray.__init__, ot.TrackedArray.extend,
           ot.TrackedArray.append, ot.TrackedArray.insert, ot.TrackedArray.__setitem__, ot.TrackedArray.__contains__, ot.validate_item,
           core.Entity._attr_changed_, core.Attribute.__set__, dp.JsonConverter.validate, dp.JsonConverter.dbval2val,
           dp.ArrayConverter.validate, dp.ArrayConverter.dbval2val)
    T = 150 if tier == 'quick' else 1200
    names = list(h.HARNESSES)
    if tier == 'quick':
        names = [n for n in names if not n.startswith('l_slice_') or n[len('l_slice_'):] in QUICK_SLICE_TARGETS]
    specs = [dict(module='checks.h_c28', fn=f, cond_timeout=T, path_timeout=T / 2, setup='setup') for f in names]
    if only: specs = [s for s in specs if only in s['fn']]
    rep.bounds = {
        'documents': {'J[1].data': h.DOC1, 'J[2].data': h.DOC2, 'R[1].tags': h.TAGS, 'R[1].names': h.NAMES, 'R[1].vals': h.VALS},
        'targets': {k: '%s[%d].%s%s' % (v[0], v[1], v[2], ''.join('[%r]' % s for s in v[3])) for k, v in h.TARGETS.items()},
        'list index': [h.IDX_LO, h.IDX_HI], 'slice bounds': ['None', h.SL_LO, h.SL_HI],
        'slice steps': list(h.STEPS),
        'slice harness targets': list(QUICK_SLICE_TARGETS) if tier == 'quick' else list(h.LIST_TARGETS),
        'keys': list(h.KEYS), 'repeat count': [h.N_LO, h.N_HI], 'inserted integer': 'unbounded (z3 Int)',
        'value shapes': h.NSHAPE, 'iterable shapes': h.NSEQ, 'value shapes in slice assignment': h.NSLSHAPE,
        'operations': {'list': [n for n, _ in h.LIST_OPS + h.LIST_SLICE_OPS + h.LIST_ALIAS_OPS[:2]], 'dict': [n for n, _ in h.DICT_OPS + h.DICT_ALIAS_OPS[:1]],
                       'list reads': [n for n, _ in h.LIST_READS], 'dict reads': [n for n, _ in h.DICT_READS]},
    }
    rep.assumptions = ['pony.orm.core.time replaced by a constant (statistics only)',
                       'one fresh db_session per explored path on one in-memory SQLite database created in setup(); rolled back at the end of the path',
                       'list/dict C code is not symbolic: indices and slice bounds handed to it are realised by CrossHair, hence the small ranges',
                       'sequences of operations are covered by induction over rule W, not enumerated symbolically; the two-step ties are concrete',
                       'an operation that raises is still held to rule M (if it changed the value it must have marked the object)']
    rep.trusted = ['crosshair-tool 0.0.110', 'z3', 'plain()/wrapped() and the rules M, W, R in checks/h_c28.py', 'sqlite3 (concrete loads only)']
    ch.run_harnesses(rep, specs, classify)
    if not only or only == 'tie':
        structural(rep, h)
        ties(rep, h, tier)
        if tier == 'thorough': pairs(rep, h)
    return rep


# ---- structural: the operation tables cover dir(list) / dir(dict) ---------------------------------------------------------

def _witness_args(h):
    import itertools
    for i, lo, hi, st, k, n, shape, seq in itertools.product((0, -1, 1), (None, 0), (None, 1), (0, 2), (0, 2), (0, 2), (0, 2), (0, 1)):
        yield h.Args(i=i, lo=lo, hi=hi, st=st, k=k, n=n, v=9, shape=shape, seq=seq)


def structural(rep, h):
    groups = [('list', list, h.LIST_NAMES, h.LIST_READ_NAMES, h.LIST_OPS + h.LIST_SLICE_OPS + h.LIST_ALIAS_OPS, h.LIST_READS, [5, 1, 9, 1]),
              ('dict', dict, h.DICT_NAMES, h.DICT_READ_NAMES, h.DICT_OPS + h.DICT_ALIAS_OPS, h.DICT_READS, {'a': 1, 'b': [2]})]
    for label, typ, mut_names, read_names, mut_table, read_table, sample in groups:
        unclassified = [n for n in dir(typ) if n not in mut_names and n not in read_names and n not in h.NOT_OPERATIONS]
        rep.add(Ob('structural:dir(%s) classified' % label, 'structural', HOLDS if not unclassified else CEX,
                   detail='unclassified names: %r' % unclassified, cex={'names': unclassified} if unclassified else None,
                   reproduced=True if unclassified else None))
        mt, rt = dict(mut_table), dict(read_table)
        missing = [e for names in list(mut_names.values()) for e in names if e not in mt] + \
                  [e for names in list(read_names.values()) for e in names if e not in rt]
        rep.add(Ob('structural:%s tables have every named entry' % label, 'structural', HOLDS if not missing else CEX,
                   detail='missing: %r' % missing, cex={'missing': missing} if missing else None, reproduced=True if missing else None))
        # probe on plain containers
        wrong = []
        for name, f in mut_table:
            if name.startswith('stmt_'): continue
            changed = False
            for A in _witness_args(h):
                c = typ(h.plain(sample))
                try: f(c, A)
                except Exception: pass
                if c != sample: changed = True; break
            if not changed: wrong.append('mutating entry %s never changed a plain %s' % (name, label))
        for name, f in read_table:
            if name == 'get_untracked': continue
            for A in _witness_args(h):
                c = typ(h.plain(sample))
                try: f(c, A)
                except Exception: pass
                if c != sample: wrong.append('reading entry %s changed a plain %s' % (name, label)); break
        rep.add(Ob('structural:%s table entries are what they are classified as' % label, 'structural', HOLDS if not wrong else CEX,
                   detail='; '.join(wrong), cex={'wrong': wrong} if wrong else None, reproduced=True if wrong else None))


# ---- concrete tie: commit, re-read in a new session --------------------------------------------------------------------

TIE_ARGS = [dict(i=1, lo=0, hi=1, st=0, k=0, n=2, v=9, shape=2, seq=0), dict(i=-1, lo=None, hi=None, st=0, k=2, n=0, v=9, shape=1, seq=1),
            dict(i=0, lo=1, hi=None, st=0, k=1, n=2, v=1, shape=0, seq=2), dict(i=2, lo=-1, hi=None, st=1, k=1, n=3, v=1, shape=3, seq=2)]


def _restore(h):
    from pony.orm import db_session
    with db_session:
        h.J[1].data = h.plain(h.DOC1); h.J[2].data = h.plain(h.DOC2)
        r = h.R[1]; r.tags = list(h.TAGS); r.names = list(h.NAMES); r.vals = list(h.VALS)


def _replay_text(target, opname, args, second):
    return ('# C28 replay: run with /verif/.venv/bin/python from /verif\nimport sys; sys.path.insert(0, %r)\nfrom checks import c28, h_c28 as h\nh.setup()\n'
            'seen, stored = c28.tie_once(h, %r, %r, %r, %r)\nprint("value seen by the program :", seen)\nprint("value read after commit   :", stored)\n'
            'sys.exit(0 if seen == stored else 1)\n') % (os.path.dirname(os.path.dirname(os.path.abspath(__file__))), target, opname, args, second)


def _find(h, opname, dict_target):
    tables = (h.DICT_OPS + h.DICT_ALIAS_OPS) if dict_target else (h.LIST_OPS + h.LIST_SLICE_OPS + h.LIST_ALIAS_OPS)
    return dict(tables)[opname]


def tie_once(h, target, opname, args, second):
    """`op` [; flush(); change the container the operation inserted]; commit; re-read in a new session"""
    return tie_program(h, target, [('op', opname, args)] + ([('flush',), ('nested',)] if second else []))


def tie_program(h, target, steps):
    """session 1: load the target, run the steps, commit.  session 2: re-read.
    Returns (plain value the program saw at the end of session 1, plain value read in session 2)."""
    from pony.orm import db_session, flush
    _restore(h)
    with db_session:
        o, attr, aname, root, c, parent, key = h._load(target)
        old_ids = set(_container_ids(root))
        for step in steps:
            if step[0] == 'flush':
                flush()
            elif step[0] == 'nested':
                inner = _newest_container(getattr(o, aname), old_ids)
                if inner is not None:
                    if isinstance(inner, dict): inner['tie'] = 1
                    else: inner.append(77)
            else:
                A = h.Args(**step[2]); A.kind = h.KIND[target]
                if A.kind != 'json': A.shape = 0          # valid items only: the tie is about persistence, not item validation
                f = _find(h, step[1], target in h.DICT_TARGETS)
                try:
                    if step[1].startswith('stmt_'): f(c, A, o, aname, parent, key)
                    else: f(c, A)
                except Exception:
                    pass
        seen = h.strict(getattr(o, aname))
    with db_session:
        o2 = (h.J if h.TARGETS[target][0] == 'J' else h.R)[h.TARGETS[target][1]]
        stored = h.strict(getattr(o2, h.TARGETS[target][2]))
    _restore(h)
    return seen, stored


def _container_ids(root):
    out = []
    def walk(x):
        if isinstance(x, (dict, list)):
            out.append(id(x))
            for y in (x.values() if isinstance(x, dict) else x): walk(y)
    walk(root)
    return out


def _newest_container(root, old_ids):
    """a nested container that the operation put there (not present before), else the last nested container"""
    new, last = [], []
    def walk(x, top):
        if isinstance(x, (dict, list)):
            if not top:
                last.append(x)
                if id(x) not in old_ids: new.append(x)
            for y in (x.values() if isinstance(x, dict) else x): walk(y, False)
    walk(root, True)
    return new[-1] if new else (last[-1] if last else None)


def ties(rep, h, tier):
    h.setup()
    for target in h.TARGETS:
        is_dict = target in h.DICT_TARGETS
        tables = (h.DICT_OPS + h.DICT_ALIAS_OPS[:1]) if is_dict else (h.LIST_OPS + h.LIST_SLICE_OPS + h.LIST_ALIAS_OPS[:2])
        for opname, _ in tables:
            for second in (False, True):
                if second and h.KIND[target] != 'json': continue
                for n, args in enumerate(TIE_ARGS if tier == 'thorough' else TIE_ARGS[:3]):
                    seen, stored = tie_once(h, target, opname, args, second)
                    nm = 'tie:%s:%s%s:%d' % (target, opname, '+flush+nested' if second else '', n)
                    if seen == stored:
                        rep.add(Ob(nm, 'concrete-tie', HOLDS))
                        continue
                    if opname in ('iadd', 'imul', 'ior') or (second and (opname == 'stmt_ior' or (opname == 'stmt_iadd' and args['seq'] == 0))):
                        key = K_INPLACE          # list.__iadd__/__imul__/dict.__ior__ run unwrapped: no notification, no wrapping of new values
                    elif second and args['seq'] in h.NONLIST and opname in ('extend', 'setslice', 'stmt_iadd'):
                        key = K_NONLIST          # only list/dict arguments are wrapped by tracked_method; tuple/iterator items stay plain
                    else:
                        key = None
                    rep.add(Ob(nm, 'concrete-tie', CEX, cex={'target': rep.bounds['targets'][target], 'operation': opname, 'args': args,
                                                             'then_flush_and_change_nested': second, 'seen': repr(seen), 'stored': repr(stored)},
                               detail='program saw %r, a new session reads %r' % (seen, stored), reproduced=True, key=key,
                               replay=_replay_text(target, opname, args, second)))


def pairs(rep, h):
    """thorough tier: every ordered pair `op1; flush(); op2; commit` of table operations on the same container (concrete)"""
    inplace = ('iadd', 'imul', 'ior')
    for target in h.TARGETS:
        is_dict = target in h.DICT_TARGETS
        tables = (h.DICT_OPS + h.DICT_ALIAS_OPS[:1]) if is_dict else (h.LIST_OPS + h.LIST_SLICE_OPS + h.LIST_ALIAS_OPS[:2])
        for op1, _ in tables:
            for op2, _ in tables:
                for n, (a1, a2) in enumerate(((TIE_ARGS[0], TIE_ARGS[1]), (TIE_ARGS[2], TIE_ARGS[0]))):
                    steps = [('op', op1, a1), ('flush',), ('op', op2, a2)]
                    seen, stored = tie_program(h, target, steps)
                    nm = 'pair:%s:%s;flush;%s:%d' % (target, op1, op2, n)
                    if seen == stored:
                        rep.add(Ob(nm, 'concrete-tie', HOLDS))
                        continue
                    key = K_INPLACE if (op1 in inplace or op2 in inplace) else None
                    rep.add(Ob(nm, 'concrete-tie', CEX, cex={'target': rep.bounds['targets'][target], 'steps': steps, 'seen': repr(seen), 'stored': repr(stored)},
                               detail='program saw %r, a new session reads %r' % (seen, stored), reproduced=True, key=key,
                               replay=('# C28 replay: run with /verif/.venv/bin/python from /verif\nimport sys; sys.path.insert(0, %r)\nfrom checks import c28, h_c28 as h\nh.setup()\n'
                                       'seen, stored = c28.tie_program(h, %r, %r)\nprint("seen  :", seen)\nprint("stored:", stored)\nsys.exit(0 if seen == stored else 1)\n')
                                      % (os.path.dirname(os.path.dirname(os.path.abspath(__file__))), target, steps)))
