"""C07 - stored attribute values read back unchanged for every type (SQLite converters; kernels + ties)."""
import datetime as dt
from decimal import Decimal
from engine.core import Report, Ob, HOLDS, CEX
from engine import ch


def classify(spec, cex):
    if spec['fn'] == 'timedelta_real_roundtrip_big':
        from checks import h_c07 as h
        d = h.DAYS[min(max(cex.get('days', 0), 0), len(h.DAYS) - 1)]
        if abs(d) >= 30000: return 'sqlite-timedelta-real-precision'
    return None


def ties(rep):
    """Concrete tie through the public API on real SQLite: value seen after flush == value a fresh session reads."""
    from pony.orm import Database, Required, Optional, db_session, commit, flush, IntArray, StrArray, FloatArray, Json
    db = Database()
    class T(db.Entity):
        i8 = Optional(int, size=8); i64 = Optional(int, size=64); u32 = Optional(int, size=32, unsigned=True)
        b = Optional(bool); f = Optional(float); s = Optional(str)
        dec = Optional(Decimal, 10, 2); dec4 = Optional(Decimal, 12, 4); dec15 = Optional(Decimal, 15, 2); dec18 = Optional(Decimal, precision=18, scale=8)
        t = Optional(dt.time); t0 = Optional(dt.time, precision=0); d = Optional(dt.date); ts = Optional(dt.datetime); ts3 = Optional(dt.datetime, precision=3)
        td = Optional(dt.timedelta); td0 = Optional(dt.timedelta, precision=0)
        raw = Optional(bytes)
        ia = Optional(IntArray); sa = Optional(StrArray); fa = Optional(FloatArray); js = Optional(Json)
        ljs = Optional(Json, lazy=True); lia = Optional(IntArray, lazy=True); ls = Optional(str, lazy=True)
    db.bind('sqlite', ':memory:')
    db.generate_mapping(create_tables=True)
    cases = [
        ('i8', -128), ('i8', 127), ('i64', 2 ** 63 - 1), ('i64', -2 ** 63), ('u32', 2 ** 32 - 1), ('b', True), ('b', False), ('f', 0.1), ('f', -1e308), ('f', 5e-324),
        ('s', 'x\u0000y'), ('s', '\U0001F600'), ('raw', b'\x00\xff'),
        ('dec', Decimal('1.25')), ('dec', Decimal('-0.01')), ('dec', Decimal('1.005')), ('dec', Decimal('2.675')), ('dec4', Decimal('1.00005')), ('dec', Decimal('99999999.99')), ('dec15', Decimal('1234567890123.45')), ('dec15', Decimal('-9999999999999.99')), ('dec18', Decimal('1234567890.12345678')), ('dec18', Decimal('0.00000001')),
        ('t', dt.time(23, 59, 59, 999999)), ('t', dt.time(0, 0, 0)), ('t0', dt.time(1, 2, 3, 999999)), ('d', dt.date(1, 1, 1)), ('d', dt.date(9999, 12, 31)),
        ('ts', dt.datetime(2000, 2, 29, 23, 59, 59, 999999)), ('ts', dt.datetime(1, 1, 1)), ('ts3', dt.datetime(2024, 1, 1, 0, 0, 0, 999999)),
        ('td', dt.timedelta(days=1, microseconds=1)), ('td', dt.timedelta(days=-1, microseconds=1)), ('td', dt.timedelta(microseconds=-1)), ('td0', dt.timedelta(seconds=1, microseconds=999999)),
        ('td', dt.timedelta(days=99999, seconds=86399, microseconds=999999)), ('td', dt.timedelta(days=400000, microseconds=1)),
        ('d', dt.datetime(2020, 1, 2, 3, 4, 5)), ('td', dt.timedelta(0)), ('dec', Decimal('0.00')), ('f', 0.0), ('s', ''), ('raw', b''), ('t', dt.time(0, 0)),
        ('ljs', {'a': [1, 2]}), ('ljs', 'x'), ('ljs', []), ('lia', [1, 2]), ('lia', []), ('ls', 'lazy'),
        ('ia', []), ('ia', [1, -2, 2 ** 40]), ('sa', []), ('sa', ['a', '', 'b c']), ('fa', []), ('fa', [0.5, -1e10]),
        ('js', {}), ('js', []), ('js', {'a': [1, {'b': None}], 'c': 'caf\u00e9'}), ('js', [[], {}]), ('js', 'text'), ('js', 1.5), ('js', 7), ('js', True),
    ]
    for n, (attr, val) in enumerate(cases):
        name = 'tie: %s = %r' % (attr, val)
        try:
            with db_session:
                o = T(id=n + 1, **{attr: val}); flush()
                seen = getattr(o, attr)
            with db_session:
                read = getattr(T[n + 1], attr)
            with db_session:
                # the same value as a query result column (its own decoding path: no entity is loaded)
                proj = T.select(lambda t: t.id == n + 1)
                col = db.select('select 1')            # (keeps the session alive for the string query below)
                from pony.orm import select as _select
                rows_ = _select('getattr(t, a) for t in T if t.id == k', {'T': T, 'getattr': getattr}, {'a': attr, 'k': n + 1})[:]
                projected = rows_[0] if rows_ else None
        except Exception as ex:
            rep.add(Ob(name, 'concrete-tie', HOLDS, detail='rejected: %s' % type(ex).__name__)); continue
        good = type(read) is type(seen) and read == seen
        if good and not (type(projected) is type(seen) and projected == seen) and not isinstance(seen, (list, dict)):
            rep.add(Ob(name + ' [as a query result column]', 'concrete-tie', CEX, detail='attribute value %r, select(t.%s ...) returns %r' % (seen, attr, projected), reproduced=True, key=None,
                       cex={'attr': attr, 'value': repr(val), 'seen': repr(seen), 'projected': repr(projected)},
                       replay='# C07 tie: attribute %s, value %r: attribute read %r, query result column %r (see checks/c07.py ties())\nraise SystemExit(1)\n' % (attr, val, seen, projected)))
        if good: rep.add(Ob(name, 'concrete-tie', HOLDS, detail=repr(read)))
        else:
            key = None
            if isinstance(val, Decimal):
                scale = {'dec': 2, 'dec4': 4, 'dec15': 2, 'dec18': 8}[attr]
                at_scale = val == val.quantize(Decimal(10) ** -scale)
                many_digits = len(val.as_tuple().digits) > 15       # beyond what an IEEE double carries exactly
                key = 'decimal-rounded-only-on-write' if not at_scale else ('sqlite-decimal-stored-as-real' if many_digits else None)
            if isinstance(val, dt.timedelta) and abs(val.days) >= 30000: key = 'sqlite-timedelta-real-precision'
            rep.add(Ob(name, 'concrete-tie', CEX, detail='value seen after flush %r, value read by a fresh session %r' % (seen, read), reproduced=True, key=key,
                       cex={'attr': attr, 'value': repr(val), 'seen': repr(seen), 'read': repr(read)},
                       replay='# C07 tie: attribute %s, value %r: seen after flush %r, read by a fresh session %r (see checks/c07.py ties())\nraise SystemExit(1)\n' % (attr, val, seen, read)))


def run(tier, seed, only=None):
    from pony.orm import dbapiprovider as dp
    from pony.orm.dbproviders import sqlite as sq
    from pony.utils import utils as pu
    from pony import converting
    from checks import h_c07 as h
    rep = Report('C07', 'other',
                 'CrossHair over the real converter code: integers, booleans and microsecond rounding fully symbolic; date/time fields as symbolic '
                 'indexes into boundary lists (explicit solver branching) because the text codecs realise integers; round trip '
                 'sql2py(store(py2sql(validate(v)))) == validate(v) with the type preserved. Concrete tie through real SQLite sessions.')
    rep.fn(sq.SQLiteIntConverter.py2sql if hasattr(sq.SQLiteIntConverter, 'py2sql') else dp.IntConverter.validate, dp.IntConverter.validate, dp.BoolConverter.sql2py,
           dp.ConverterWithMicroseconds.round_microseconds_to_precision, sq.SQLiteTimeConverter.sql2py, sq.SQLiteTimeConverter.py2sql, sq.SQLiteDatetimeConverter.sql2py,
           sq.SQLiteDateConverter.sql2py, sq.SQLiteTimedeltaConverter.py2sql, sq.SQLiteTimedeltaConverter.sql2py, converting.timedelta2str, converting.str2timedelta,
           pu.datetime2timestamp, pu.timestamp2datetime, dp.TimeConverter.validate, dp.DatetimeConverter.validate, dp.TimedeltaConverter.validate)
    T = 150 if tier == 'quick' else 900
    import os
    if tier == 'thorough': os.environ['C07_THOROUGH'] = '1'
    specs = [dict(module='checks.h_c07', fn=f, cond_timeout=T, path_timeout=T / 2) for f in h.HARNESSES]
    if only: specs = [s for s in specs if only in s['fn']]
    ch.run_harnesses(rep, specs, classify)
    if not only: ties(rep)
    if not only or only == 'sweep': microsecond_sweep(rep, tier)
    rep.bounds = {'ints': 'unbounded, six sizes, signed/unsigned', 'microsecond rounding': 'all us in [0, 10^6), precision 0..6',
                  'date/time fields': 'boundary lists US=%r SEC=%r HOUR=%r YEAR=%r MONTH=%r DAY=%r DAYS=%r PREC=%r' % (h.US, h.SEC, h.HOUR, h.YEAR, h.MONTH, h.DAY, h.DAYS, h.PREC)}
    rep.assumptions = ['store() = SQLite column behaviour: INTEGER 64-bit, TEXT verbatim, REAL = IEEE double (Python float)',
                       'date/time field values outside the boundary lists are not explored (the text codecs realise symbolic integers under CrossHair; the source-rewriting '
                       'engine E4 of the design was not built); float text round trip, str/bytes/UUID/Json (identity or C code) and the PostgreSQL/MySQL drivers are outside']
    rep.trusted = ['crosshair-tool', 'z3', 'CPython datetime/float']
    return rep


def microsecond_sweep(rep, tier):
    """Concrete tie (enumeration, NOT solver-quantified): the text codecs of the SQLite time / datetime converters and pony.utils'
    timestamp functions over the microsecond field - every 7th value in the quick tier (142 858 values), all 10^6 in the thorough
    tier; the other fields fixed.  The harnesses draw microseconds from a short boundary list because strftime/'%06d' realise a
    symbolic integer; this sweep covers the values between the boundaries."""
    import time
    from checks import h_c07 as h
    from pony.utils import utils as pu
    step = 7 if tier == 'quick' else 1
    tconv = h._conv(h.sq.SQLiteTimeConverter, dt.time, 6)
    dconv = h._conv(h.sq.SQLiteDatetimeConverter, dt.datetime, 6)
    codecs = [
        ('SQLiteTimeConverter', lambda us: dt.time(23, 59, 59, us), lambda v: tconv.sql2py(tconv.py2sql(v))),
        ('SQLiteDatetimeConverter', lambda us: dt.datetime(2024, 2, 29, 12, 0, 59, us), lambda v: dconv.sql2py(dconv.py2sql(v))),
        ('utils.timestamp2datetime(datetime2timestamp)', lambda us: dt.datetime(1999, 12, 31, 23, 59, 59, us), lambda v: pu.timestamp2datetime(pu.datetime2timestamp(v))),
    ]
    for name, make, trip in codecs:
        t0 = time.time()
        bad = None
        try:
            for us in range(0, 1000000, step):
                v = make(us)
                r = trip(v)
                if r != v or type(r) is not type(v): bad = (v, r); break
        except Exception as ex:
            bad = (us, '%s: %s' % (type(ex).__name__, ex))
        nm = 'microsecond sweep: %s' % name
        if bad is None: rep.add(Ob(nm, 'concrete-tie', HOLDS, detail='%d values' % len(range(0, 1000000, step)), time_s=time.time() - t0))
        else:
            rep.add(Ob(nm, 'concrete-tie', CEX, detail='%r reads back as %r' % bad, reproduced=True, key=None, cex={'value': repr(bad[0]), 'read': repr(bad[1])},
                       replay='# C07 microsecond sweep %s: %r reads back as %r\nraise SystemExit(1)\n' % (name, bad[0], bad[1])))
