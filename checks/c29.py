"""C29 - JSON and array operations in queries match Python semantics (partial: the code that runs in this process).

Part A (z3, linear integer arithmetic, unbounded Ints; style of C25): for every combination of bound kinds the REAL
translator (ArrayMixin.__getitem__/_index) and the REAL builder of SQLite and PostgreSQL emit SQL text for `t.arr[i]` and
`t.arr[i:j]`; the subscript expressions are parsed out of the text and evaluated over an array abstracted to its length
n (z3 Int, any n >= 0), symbolic parameter values and column values (one nullable); z3 decides for ALL integers that the
element position / slice window selected by the SQL equals Python's.
  * SQLite: py_array_index / py_array_slice / py_array_length are pony's own Python UDFs whose bodies are `array[index]`
    (IndexError -> NULL), `array[start:stop]`, `len(array)`: modelled by Python's list semantics (the UDF bodies
    themselves are run by CrossHair in part B).
  * PostgreSQL (model-only, no server in the sandbox): manual 8.15.3/8.15.4 - arrays written by pony are one-based;
    `a[k]` is NULL when k is NULL or outside 1..n; `a[lo:hi]` is NULL when a bound is NULL, an omitted bound is the array
    bound, a slice partly outside is reduced to the overlap, entirely outside / lo > hi gives the empty array;
    COALESCE(ARRAY_LENGTH(a, 1), 0) = n.
  Python reference: index i selects position i (i >= 0) or n + i (i < 0) when -n <= i < n and raises IndexError
  otherwise (obligation "out of range": the query must then yield NULL, not some element); slices clamp as list slicing
  does; a None / NULL bound is an omitted bound.

Part B (CrossHair, checks/h_c29.py): JSON path strings (eval_json_path -> _parse_path round trip; PostgreSQL path literal
against a reference reader of the array-literal syntax), the SQLite Python fallbacks py_json_* / _traverse / py_array_* on
symbolic documents, JSON truthiness (JSON_NONZERO's textual NOT IN list against bool()).

Part C (CrossHair as the chooser, checks/h_c29.py section 4): end to end on a real in-memory SQLite database - the real
translator monads (JsonMixin, JsonItemMonad, ArrayMixin), the real builder and SQLite with json1 or with pony's Python
fallbacks (provider.json1_available flipped per path): document, operation (path access, comparison with a scalar, key /
item membership, len, truthiness, array index / slice / contains / subset), keys and the json1 switch are solver-chosen
from pools; the answer is compared with the same expression evaluated by Python on the decoded value.

Deviations from DESIGN.md: the json_path_re round trip is decided by CrossHair alone (it confirms for keys len <= 3; no z3
regex encoding was needed); documents that pass through json.dumps/loads come from pools (concrete per path) instead of
being fully symbolic; Part C was added because the kernels do not touch the translator's JSON monads.
"""
import itertools, os, time
import z3
from engine.core import Report, Ob, HOLDS, CEX, REJECTED, INCONCLUSIVE
from engine import env as E0
from engine import ch
from engine.symsql import sqlparse

DIALECTS = [('sqlite', 'SQLite'), ('postgres', 'PostgreSQL')]
_dbs = {}
S1, S2 = 1000003, 1000033          # sentinel parameter values: replaced by z3 variables when the SQL is evaluated


def get_db(pname):
    if pname in _dbs: return _dbs[pname]
    from pony.orm import Required, Optional, IntArray
    db = E0.sqlite_memory_database() if pname == 'sqlite' else E0.mock_database(pname)
    class T(db.Entity):
        arr = Required(IntArray)
        a = Required(int)
        b = Optional(int)
    db.generate_mapping(check_tables=False, create_tables=(pname == 'sqlite'))
    _dbs[pname] = db
    return db


def bound_kinds(K):
    kinds = [('omit',)]
    kinds += [('const', c) for c in range(-K, K + 1)]
    kinds += [('param', 'int'), ('param', None)]
    kinds += [('col', 'a'), ('col', 'b'), ('expr', 't.a - 1')]
    return kinds


def src_of(kind, var):
    if kind[0] == 'omit': return ''
    if kind[0] == 'const': return repr(kind[1])
    if kind[0] == 'param': return var
    if kind[0] == 'col': return 't.' + kind[1]
    return kind[1]


class V(object):
    """SQL / Python integer value: z3 Int term + z3 Bool 'is NULL / None'"""
    def __init__(self, t, n=None): self.t, self.n = t, (z3.BoolVal(False) if n is None else n)


NULL = V(z3.IntVal(0), z3.BoolVal(True))


def py_bound(kind, var, env):
    """the bound as the Python program sees it (None = omitted / None)"""
    if kind[0] == 'omit': return None
    if kind[0] == 'const': return V(z3.IntVal(kind[1]))
    if kind[0] == 'param': return None if kind[1] is None else V(env[var])
    if kind[0] == 'col': return V(env[kind[1]], env['b_null'] if kind[1] == 'b' else None)
    return V(env['a'] - 1)


def build_sql(db, src, scope):
    from pony.orm import db_session
    from pony.orm import core
    with db_session:
        q = core.select(src, {'T': db.T}, dict(scope))
        sql, arguments, _, _ = q._construct_sql_and_arguments()
    return sql, arguments


class Unmodelled(Exception): pass


def ev(node, env):
    """evaluate a parsed SQL scalar expression to V (ints) or (z3 Bool value, z3 Bool unknown) for conditions"""
    k = node[0]
    if k == 'lit':
        if isinstance(node[1], bool) or not isinstance(node[1], int): raise Unmodelled(repr(node))
        return V(z3.IntVal(node[1]))
    if k == 'null': return NULL
    if k == 'neg':
        v = ev(node[1], env); return V(-v.t, v.n)
    if k == 'param':
        val = env['arguments'][node[1]]
        if val == S1: return V(env['y1'])
        if val == S2: return V(env['y2'])
        if val is None: return NULL
        if isinstance(val, int) and not isinstance(val, bool): return V(z3.IntVal(val))
        raise Unmodelled('parameter %r' % (val,))
    if k == 'col':
        if node[2] == 'a': return V(env['a'])
        if node[2] == 'b': return V(env['b'], env['b_null'])
        raise Unmodelled(repr(node))
    if k == 'bin':
        op = node[1]
        l, r = ev(node[2], env), ev(node[3], env)
        if op in ('+', '-'):
            return V(l.t + r.t if op == '+' else l.t - r.t, z3.Or(l.n, r.n))
        if op in ('>=', '>', '<', '<=', '=', '<>'):
            c = {'>=': l.t >= r.t, '>': l.t > r.t, '<': l.t < r.t, '<=': l.t <= r.t, '=': l.t == r.t, '<>': l.t != r.t}[op]
            return ('cond', c, z3.Or(l.n, r.n))
        raise Unmodelled(repr(node))
    if k == 'case':
        if node[1] is not None: raise Unmodelled('case with operand')
        out = ev(node[3], env) if node[3] is not None else NULL
        for cond, val in reversed(node[2]):
            c = ev(cond, env)
            if c[0] != 'cond': raise Unmodelled(repr(cond))
            v = ev(val, env)
            take = z3.And(c[1], z3.Not(c[2]))          # WHEN is taken only if the condition is TRUE (not NULL)
            out = V(z3.If(take, v.t, out.t), z3.If(take, v.n, out.n))
        return out
    if k == 'func':
        name, args = node[1], node[2]
        if name == 'py_array_length' and len(args) == 1 and args[0][0] == 'col' and args[0][2] == 'arr':
            return V(env['n'])
        if name == 'coalesce' and len(args) == 2:
            a = args[0]
            if (a[0] == 'func' and a[1] == 'array_length' and a[2][0][0] == 'col' and a[2][0][2] == 'arr' and a[2][1] == ('lit', 1)
                    and args[1] == ('lit', 0)):
                return V(env['n'])             # ARRAY_LENGTH is NULL for the empty array, COALESCE(.., 0) = 0 = n
        raise Unmodelled(repr(node))
    raise Unmodelled(repr(node))


def split_top(text, sep):
    out, depth, cur, i, q = [], 0, [], 0, False
    while i < len(text):
        c = text[i]
        if c == '"': q = not q
        if not q:
            if c in '([': depth += 1
            elif c in ')]': depth -= 1
            elif c == sep and depth == 0:
                out.append(''.join(cur)); cur = []; i += 1; continue
        cur.append(c); i += 1
    out.append(''.join(cur))
    return out


def select_column(sql):
    s = sql.replace('\n', ' ').strip()
    assert s.startswith('SELECT '), sql
    s = s[len('SELECT '):]
    if s.startswith('DISTINCT '): s = s[len('DISTINCT '):]
    k = s.rindex(' FROM ')
    return s[:k].strip()


def py_window(n, start, stop):
    """Python list slice window [lo, hi) for len n; start/stop are V or None"""
    def norm(v, default):
        if v is None: return default
        x = z3.If(v.t < 0, z3.If(v.t + n < 0, z3.IntVal(0), v.t + n), z3.If(v.t > n, n, v.t))
        return z3.If(v.n, default, x)                # None bound = omitted
    lo, hi = norm(start, z3.IntVal(0)), norm(stop, n)
    return lo, z3.If(hi < lo, lo, hi)


def sql_result(dialect, form, sql, env):
    """returns dict(null=Bool, err=Bool, lo=Int, hi=Int): the 0-based window [lo, hi) the SQL selects (index: hi = lo + 1)"""
    n = env['n']
    col = select_column(sql)
    paramstyle = env['paramstyle']
    F, T = z3.BoolVal(False), z3.BoolVal(True)
    if dialect == 'SQLite':
        tree = sqlparse.parse_expr(col, dialect, paramstyle)
        if tree[0] != 'func' or tree[2][0] != ('col', tree[2][0][1], 'arr'): raise Unmodelled(col)
        if form == 'index':
            if tree[1] != 'py_array_index' or len(tree[2]) != 2: raise Unmodelled(col)
            k = ev(tree[2][1], env)
            # sqlite.py:py_array_index -> array[index] except IndexError: None ; array[None] raises TypeError (SQL error)
            valid = z3.And(k.t >= -n, k.t < n)
            pos = z3.If(k.t < 0, k.t + n, k.t)
            return dict(null=z3.And(z3.Not(k.n), z3.Not(valid)), err=k.n, lo=pos, hi=pos + 1)
        if tree[1] != 'py_array_slice' or len(tree[2]) != 3: raise Unmodelled(col)
        a, b = ev(tree[2][1], env), ev(tree[2][2], env)
        lo, hi = py_window(n, a, b)                 # sqlite.py:py_array_slice -> dumps(array[start:stop]), NULL = None = omitted
        return dict(null=F, err=F, lo=lo, hi=hi)
    # PostgreSQL: "alias"."arr"[...]
    k = col.index('[')
    base, inner = col[:k], col[k + 1:]
    if not (inner.endswith(']') and base.endswith('."arr"')): raise Unmodelled(col)
    inner = inner[:-1]
    parts = split_top(inner, ':')
    if form == 'index':
        if len(parts) != 1: raise Unmodelled(col)
        k = ev(sqlparse.parse_expr(parts[0], dialect, paramstyle), env)
        valid = z3.And(k.t >= 1, k.t <= n)
        return dict(null=z3.Or(k.n, z3.Not(valid)), err=F, lo=k.t - 1, hi=k.t)
    if len(parts) != 2: raise Unmodelled(col)
    def bound(text, default):
        text = text.strip()
        if not text: return V(default), F
        v = ev(sqlparse.parse_expr(text, dialect, paramstyle), env)
        return v, v.n
    lo1, n1 = bound(parts[0], z3.IntVal(1))
    hi1, n2 = bound(parts[1], n)
    lo = z3.If(lo1.t < 1, z3.IntVal(1), lo1.t) - 1
    hi = z3.If(hi1.t > n, n, hi1.t)
    lo_c = z3.If(lo > n, n, lo)
    return dict(null=z3.Or(n1, n2), err=F, lo=lo_c, hi=z3.If(hi < lo_c, lo_c, hi))


def regions(dialect, form, start, stop, n):
    """input regions of findings as z3 predicates: after a counterexample inside a region the region is excluded and the
    solver is asked again, so failures outside the regions still surface"""
    out = []
    live = [v for v in (start, stop) if v is not None]
    if dialect == 'SQLite' and form == 'slice' and live:
        out.append(('sqlite-array-slice-negative-bound-beyond-length', z3.Or([z3.And(z3.Not(v.n), v.t < -n) for v in live])))
    if dialect == 'SQLite' and form == 'index-out-of-range' and live:
        out.append(('sqlite-array-index-below-minus-length-returns-element', z3.And(z3.Not(start.n), start.t < -n)))
    if dialect == 'PostgreSQL' and live:
        nulls = [v.n for v in live if not z3.is_false(v.n)]
        if nulls: out.append(('postgres-array-null-bound-yields-null', z3.Or(nulls)))
    return out


def one(db, pname, dialect, form, sk, ek):
    """returns a list of Ob"""
    n, a, b, bn, y1, y2 = z3.Int('n'), z3.Int('a'), z3.Int('b'), z3.Bool('b_is_null'), z3.Int('y1'), z3.Int('y2')
    env = {'n': n, 'a': a, 'b': b, 'b_null': bn, 'y1': y1, 'y2': y2, 'paramstyle': db.provider.paramstyle}
    scope = {}
    if sk[0] == 'param': scope['y1'] = S1 if sk[1] == 'int' else None
    if form == 'slice':
        if ek[0] == 'param': scope['y2'] = S2 if ek[1] == 'int' else None
        expr = 't.arr[%s:%s]' % (src_of(sk, 'y1'), src_of(ek, 'y2'))
        name = '%s %s start=%s stop=%s' % (dialect, expr, sk, ek)
    else:
        expr = 't.arr[%s]' % src_of(sk, 'y1')
        name = '%s %s index=%s' % (dialect, expr, sk)
    t0 = time.time()
    try:
        sql, arguments = build_sql(db, '(%s for t in T)' % expr, scope)
    except Exception as e:
        if type(e).__name__ in ('TypeError', 'TranslationError', 'NotImplementedError', 'ExprEvalError', 'IndexError'):
            return [Ob(name, 'z3', REJECTED, detail='%s: %s' % (type(e).__name__, str(e)[:100]))]
        raise
    env['arguments'] = arguments
    try:
        res = sql_result(dialect, form, sql, env)
    except (Unmodelled, sqlparse.SQLSyntaxError, AssertionError, ValueError) as e:
        return [Ob(name, 'z3', INCONCLUSIVE, detail='unmodelled: %s | %s' % (e, sql))]
    start, stop = py_bound(sk, 'y1', env), (py_bound(ek, 'y2', env) if form == 'slice' else None)
    obligations = []
    if form == 'slice':
        lo, hi = py_window(n, start, stop)
        same = z3.And(z3.Not(res['null']), z3.Not(res['err']),
                      z3.Or(z3.And(res['lo'] == lo, res['hi'] == hi), z3.And(res['hi'] <= res['lo'], hi <= lo)))
        obligations.append(('slice', name, [n >= 0], z3.Not(same), lo, hi))
    else:
        if start is None: return [Ob(name, 'z3', REJECTED, detail='index None')]
        valid = z3.And(start.t >= -n, start.t < n)
        pos = z3.If(start.t < 0, start.t + n, start.t)
        ok_in = z3.And(z3.Not(res['null']), z3.Not(res['err']), res['lo'] == pos)
        # Python arr[None] raises TypeError: nothing to compare with (assume the index is not NULL)
        obligations.append(('index', name, [n >= 0, z3.Not(start.n), valid], z3.Not(ok_in), pos, pos + 1))
        obligations.append(('index-out-of-range', name + ' [out of range => NULL]', [n >= 0, z3.Not(start.n), z3.Not(valid)],
                            z3.Not(z3.And(res['null'], z3.Not(res['err']))), None, None))
    obs = []
    for oform, oname, assume, bad, lo, hi in obligations:
        s = z3.Solver(); s.set('timeout', 20000)
        s.add(*assume)
        if s.check() != z3.sat:
            obs.append(Ob(oname, 'z3', INCONCLUSIVE, detail='assumptions not satisfiable')); continue
        s.add(bad)
        regs = regions(dialect, oform, start, stop, n)
        found = []
        for _ in range(len(regs) + 1):
            r = s.check()
            if r == z3.unsat: break
            if r != z3.sat:
                found.append(Ob(oname, 'z3', INCONCLUSIVE, detail='solver: %s | %s' % (r, sql), time_s=time.time() - t0)); break
            m = s.model()
            def mv(x):
                v = m.eval(x, model_completion=True)
                return v.as_long() if z3.is_int_value(v) else z3.is_true(v)
            hit = [(k, p) for k, p in regs if z3.is_true(m.eval(p, model_completion=True))]
            cex = {'dialect': dialect, 'expr': expr, 'n': mv(n), 'a': mv(a), 'b': None if mv(bn) else mv(b),
                   'y1': (mv(y1) if scope.get('y1') == S1 else scope.get('y1')) if 'y1' in scope else None,
                   'y2': (mv(y2) if scope.get('y2') == S2 else scope.get('y2')) if 'y2' in scope else None,
                   'sql': sql, 'sql_null': mv(res['null']), 'sql_error': mv(res['err']), 'sql_window': [mv(res['lo']), mv(res['hi'])],
                   'python_window': [mv(lo), mv(hi)] if lo is not None else 'IndexError'}
            ob = Ob(oname, 'z3', CEX, detail=sql, cex=cex, time_s=time.time() - t0)
            ob.reproduced, how = replay(pname, expr, cex)
            ob.detail += ' | replay: ' + how
            ob.key = hit[0][0] if hit else None
            ob.replay = REPLAY_TEMPLATE % dict(pname=pname, expr=expr, cex=cex)
            found.append(ob)
            if not hit: break
            s.add(z3.Not(hit[0][1]))
            regs = [x for x in regs if x[0] != hit[0][0]]
        obs.extend(found or [Ob(oname, 'z3', HOLDS, detail=sql, time_s=time.time() - t0)])
    return obs


REPLAY_TEMPLATE = '''# C29 array subscript counterexample (real SQLite database through pony when the dialect is SQLite; otherwise the real
# emitted SQL evaluated under the documented PostgreSQL subscript semantics - no server in the sandbox)
import sys; sys.path.insert(0, '/verif')
from checks import c29
bad, how = c29.replay(%(pname)r, %(expr)r, %(cex)r)
print(how)
sys.exit(1 if bad else 0)
'''


def replay(pname, expr, cex):
    arr = list(range(10, 10 + cex['n']))
    scope = {k: cex[k] for k in ('y1', 'y2') if ('%s' % k) in expr}
    row = type('R', (), {'arr': arr, 'a': cex['a'], 'b': cex['b']})()
    try:
        expected = eval(expr, {}, dict(scope, t=row))
    except IndexError:
        expected = None                    # out of range: the query has nothing to return but NULL
    except Exception as e:
        return False, 'python raised %r' % (e,)
    if pname == 'sqlite':
        from pony.orm import db_session, rollback, core
        db = get_db('sqlite')
        with db_session:
            try:
                kw = {'b': cex['b']} if cex['b'] is not None else {}
                db.T(arr=arr, a=cex['a'], **kw)
                core.flush()
                try:
                    got = core.select('(%s for t in T)' % expr, {'T': db.T}, dict(scope))[:]
                    got = got[0] if got else None
                except Exception as e:
                    got = 'raised %s: %s' % (type(e).__name__, e)
            finally:
                rollback()
        if isinstance(got, (list, tuple)) or hasattr(got, '__iter__') and not isinstance(got, str): got = list(got)
        return got != expected, 'real SQLite returned %r, Python gives %r for arr=%r a=%r b=%r %r' % (got, expected, arr, cex['a'], cex['b'], scope)
    return True, 'model-only (no %s server in the sandbox): SQL selects window %s null=%s vs Python %r for arr=%r' % (
        pname, cex['sql_window'], cex['sql_null'], expected, arr)


def validate_models(rep):
    """harness self-check: the symbolic Python-slice model against real list slicing on [-5, 5]^2 x n <= 4"""
    n, s, e, sn, en = z3.Int('n'), z3.Int('s'), z3.Int('e'), z3.Bool('sn'), z3.Bool('en')
    lo, hi = py_window(n, V(s, sn), V(e, en))
    for N in range(0, 5):
        arr = list(range(N))
        for a in [None] + list(range(-5, 6)):
            for b in [None] + list(range(-5, 6)):
                sub = [(n, z3.IntVal(N)), (s, z3.IntVal(a or 0)), (e, z3.IntVal(b or 0)), (sn, z3.BoolVal(a is None)), (en, z3.BoolVal(b is None))]
                l, h = z3.simplify(z3.substitute(lo, *sub)).as_long(), z3.simplify(z3.substitute(hi, *sub)).as_long()
                if arr[l:h] != arr[a:b]:
                    rep.harness_errors.append('python slice model mismatch at n=%d %r:%r' % (N, a, b)); return


def aslist(x): return x if isinstance(x, list) else [x]


H_JSON = ('path_roundtrip_sqlite_1', 'path_roundtrip_sqlite_quote', 'path_roundtrip_sqlite_2', 'path_roundtrip_postgres',
          'path_roundtrip_postgres_2', 'path_roundtrip_postgres_backslash', 'path_postgres_null_word',
          'traverse_1', 'traverse_2_list', 'traverse_2_dict', 'traverse_str_key_on_list', 'traverse_no_keys',
          'json_extract', 'json_query_top_level_array', 'json_contains_nonzero_length', 'json_length_non_array', 'json_unwrap',
          'json_truthiness_sqlite', 'json_truthiness_sqlite_float', 'json_truthiness_postgres',
          'array_index', 'array_contains', 'array_contains_str', 'array_subset', 'array_slice',
          'json_e2e_json1', 'json_e2e_fallback', 'json_e2e_two_paths_json1', 'json_e2e_two_paths_fallback',
          'json_e2e_negative_index', 'json_e2e_scalar_compare', 'array_e2e')


def classify(spec, cex):
    from checks import h_c29
    try: return h_c29.classify(spec['fn'], cex)
    except Exception: return None


def run(tier, seed, only=None):
    if tier == 'thorough': os.environ['C29_THOROUGH'] = '1'
    from pony.orm import sqltranslation, sqlbuilding
    from pony.orm.dbproviders import sqlite as sq
    E0.install_driver_stubs()
    from pony.orm.dbproviders import postgres as pg
    rep = Report('C29', 'translation_validation',
                 'Array subscripts: for every (dialect, index kind) and (dialect, start kind, stop kind) the real translator and builder '
                 'emit SQL text; z3 (linear integer arithmetic, unbounded Ints) decides that the element / window the SQL selects equals '
                 'Python\'s for every array length n >= 0 and every parameter / column value. JSON paths, the SQLite Python fallbacks for '
                 'JSON and arrays and JSON truthiness: CrossHair over the real functions with symbolic keys, document shapes and leaves.')
    rep.fn(sqltranslation.ArrayMixin.__getitem__, sqltranslation.ArrayMixin._index, sq.SQLiteBuilder.ARRAY_INDEX, sq.SQLiteBuilder.ARRAY_SLICE,
           sq.SQLiteBuilder.ARRAY_LENGTH, pg.PGSQLBuilder.ARRAY_INDEX, pg.PGSQLBuilder.ARRAY_SLICE, pg.PGSQLBuilder.ARRAY_LENGTH,
           sqlbuilding.SQLBuilder.CASE, sqlbuilding.SQLBuilder.eval_json_path, pg.PGSQLBuilder.eval_json_path, sq._parse_path, sq._traverse,
           sq._extract, sq.py_json_extract, sq.py_json_contains, sq.py_json_nonzero, sq.py_json_array_length, sq.py_json_unwrap,
           sq.SQLiteBuilder.JSON_NONZERO, pg.PGSQLBuilder.JSON_NONZERO, sq.py_array_index, sq.py_array_contains, sq.py_array_subset,
           sq.py_array_length, sq.py_array_slice, sq.wrap_array_func,
           sqltranslation.JsonMixin.contains, sqltranslation.JsonMixin.len, sqltranslation.JsonMixin.nonzero, sqltranslation.JsonItemMonad.get_path,
           sqltranslation.JsonItemMonad.cast_from_json, sqltranslation.JsonItemMonad.getsql, sqltranslation.ArrayMixin.contains,
           sqltranslation.ArrayMixin.len, sqltranslation.ArrayMixin.nonzero, sqlbuilding.SQLBuilder.build_json_path,
           sq.SQLiteBuilder.JSON_QUERY, sq.SQLiteBuilder.JSON_VALUE, sq.SQLiteBuilder.JSON_CONTAINS, sq.SQLiteBuilder.JSON_ARRAY_LENGTH,
           sq.SQLiteBuilder.ARRAY_CONTAINS, sq.SQLiteBuilder.ARRAY_SUBSET)
    K = 2 if tier == 'quick' else 5
    rep.bounds = {'array length n': 'all integers >= 0', 'parameter and column bounds': 'all integers (and NULL / None)',
                  'constant bounds': '[-%d, %d]' % (K, K), 'dialects': [d for _, d in DIALECTS]}
    rep.assumptions = ['a window over an arbitrary array is determined by its bounds',
                       'PostgreSQL array subscript semantics as cited in the module docstring (no server in the sandbox); arrays are one-based',
                       'the SQLite UDFs py_array_index/slice/length behave as Python list indexing/slicing/len (their bodies; run by CrossHair in part B)',
                       'where Python raises IndexError the query is required to yield NULL (reported under separate keys)']
    rep.trusted = ['z3', 'engine/symsql/sqlparse.py (expression parser)', 'the 60-line evaluator ev()/sql_result() in checks/c29.py',
                   'crosshair-tool 0.0.110', 'reference statements in checks/h_c29.py']
    validate_models(rep)
    kinds = bound_kinds(K)
    n_prog = 0
    for pname, dialect in DIALECTS:
        db = get_db(pname)
        for sk, ek in itertools.product(kinds, kinds):
            nm = 'array %s slice %s %s' % (dialect, sk, ek)
            if only and only not in nm: continue
            n_prog += 1
            for ob in aslist(one(db, pname, dialect, 'slice', sk, ek)):
                rep.add(ob)
                if ob.verdict == HOLDS and len(rep.samples) < 3 and sk[0] == 'col':
                    rep.sample({'program': ob.name, 'sql': ob.detail, 'verdict': 'unsat (holds for all n, a, b, parameters)'})
        for sk in kinds:
            if sk[0] == 'omit' or sk == ('param', None): continue
            nm = 'array %s index %s' % (dialect, sk)
            if only and only not in nm: continue
            n_prog += 1
            for ob in aslist(one(db, pname, dialect, 'index', sk, None)): rep.add(ob)
    rep.programs = n_prog
    T = 150 if tier == 'quick' else 900
    specs = [dict(module='checks.h_c29', fn=f, cond_timeout=T, path_timeout=T / 2) for f in H_JSON]
    if only: specs = [s for s in specs if only in s['fn']]
    rep.bounds.update({
        'path keys': 'one string key len <= %d over {a . [ \\ blank 0} (SQLite) / {a " , { blank 0} (PostgreSQL); quote / backslash keys len <= 2; '
                     '2-3 element paths from a pool of 16 keys (strings needing quotes, looking like path syntax, non-ASCII; indexes 0, 1, -1, 10, -12)' % (4 if tier == 'thorough' else 3),
        'documents (traverse)': 'top scalar / list / dict of 0-2 entries, entry 0 leaf / list / dict of 0-2 leaves; leaves symbolic int, str len <= 1, bool, null; '
                                'keys: unbounded symbolic int, symbolic str len <= 1 over {a, b}',
        'documents (through JSON text)': '18 entry values (10 scalars incl. float, 8 nested containers) x 3-5 top shapes x paths of 0-2 keys from 4-6 pooled keys',
        'end to end (real SQLite, json1 on/off)': '5 documents x 20 operations x 8 x 3 keys; two paths per query sharing a variable (6 tuple results, 6 and/or conditions) x 3 documents x 4 x 4 keys x 2 indexes; 13 leaves x 7 constants x ==/!= ; 4 arrays x 15 operations',
        'truthiness': '21 scalar/container candidates + 6 floats + missing path', 'arrays': 'symbolic List[int] len <= 3 with unbounded index/item; '
                      'List[str]; through JSON text: 8 arrays x 10 item lists, slices of n <= 4 with bounds in [-5, 5] or None'})
    rep.assumptions += ['functions that serialise (json.dumps/loads, %d formatting, regex) are run on solver-chosen pool members (concrete per path), the others on symbolic values',
                        'path_cache is cleared at the start of every path',
                        'PostgreSQL path literal: read by the reference reader of the array-literal syntax in checks/h_c29.py (model-only); jsonb equality model in json_truthiness_postgres',
                        'json1 (SQLite C extension) itself is not executed; only pony\'s Python fallbacks are']
    ch.run_harnesses(rep, specs, classify)
    for ob in rep.obs:
        if ob.verdict == CEX and len(rep.samples) < 8:
            rep.sample({'program': ob.name, 'counterexample': ob.cex, 'key': ob.key})
    return rep
