"""CrossHair harnesses for C07 (stored attribute values read back unchanged).

Kernel per converter: sql2py(store(py2sql(validate(v)))) == validate(v), where `store` is the column behaviour of SQLite
(TEXT for date/time/datetime/Decimal, REAL for timedelta, INTEGER for int/bool).  Integers, booleans and the microsecond
rounding are fully symbolic.  Date/time *fields* are symbolic indexes into boundary lists (the text codecs render integers
with '%d' / strftime, which realises symbolic integers, so field values are drawn by explicit solver branching from lists of
boundary values - stated as the bound); each explored path is a concrete round trip chosen by the solver.
"""
import datetime as dt
from decimal import Decimal
from typing import Optional
from engine.ch import ok
from pony.orm import dbapiprovider as dp
from pony.orm.dbproviders import sqlite as sq
from pony.utils import utils as pu
from pony import converting
from engine.rewrite import defang

defang(dp.IntConverter, dp.ConverterWithMicroseconds)

SIZES = (None, 8, 16, 24, 32, 64)
import os
_TH = os.environ.get('C07_THOROUGH') == '1'
N_H, N_P, N_Y = (4, 5, 7) if _TH else (2, 3, 3)


class FakeProvider(object):
    uint64_support = False
    dialect = 'SQLite'
    max_time_precision = default_time_precision = 6
    varchar_default_max_len = None


class _FakeDB(object):
    provider = FakeProvider()


class _FakeEntity(object):
    _database_ = _FakeDB()


class FakeAttr(object):
    def __init__(self, py_type, kwargs, args=()):
        self.py_type, self.kwargs, self.args, self.sql_type, self.name = py_type, kwargs, args, None, 'x'
        self.entity = _FakeEntity
    def __str__(self): return 'E.x'
    __repr__ = __str__


def pick(i, values):
    """explicit branching: turns a small symbolic index into a concrete list element (one solver decision per comparison)"""
    for k in range(len(values) - 1):
        if i == k: return values[k]
    return values[-1]


def int_roundtrip(size_ix: int, unsigned: bool, val: int) -> bool:
    """
    pre: 0 <= size_ix < 6
    post: _
    """
    size = SIZES[size_ix]
    kwargs = {}
    if size is not None: kwargs['size'] = size
    if unsigned: kwargs['unsigned'] = True
    try:
        conv = sq.SQLiteIntConverter(FakeProvider(), int, FakeAttr(int, kwargs))
    except (TypeError, ValueError):
        return ok(True)
    try:
        v = conv.validate(val)
    except ValueError:
        return ok(True)
    stored = conv.py2sql(v)
    # SQLite INTEGER: 64-bit two's complement; what does not fit cannot be stored as an integer
    if not (-2 ** 63 <= stored < 2 ** 63): return ok(False)
    return ok(conv.sql2py(stored) == v and type(conv.sql2py(stored)) is int)


def bool_roundtrip(val: bool, as_int: int) -> bool:
    """
    pre: 0 <= as_int <= 2
    post: _
    """
    conv = dp.BoolConverter(FakeProvider(), bool, FakeAttr(bool, {}))
    v = conv.validate(val if as_int == 0 else (1 if val else 0))
    stored = conv.py2sql(v)
    stored = 1 if stored else 0            # SQLite has no boolean type: stored as 0/1
    back = conv.sql2py(stored)
    return ok(back is v and type(back) is bool and back == bool(val))


def round_us(us: int, precision: int) -> bool:
    """
    pre: 0 <= us < 1000000
    pre: 0 <= precision <= 6
    post: _
    """
    conv = dp.ConverterWithMicroseconds.__new__(dp.ConverterWithMicroseconds)
    r = conv.round_microseconds_to_precision(us, precision)
    new = us if r is None else r
    unit = 10 ** (6 - precision)
    good = 0 <= new <= us and new % unit == 0 and us - new < unit
    # idempotent: a value already stored is not changed again when it is read and validated
    again = conv.round_microseconds_to_precision(new, precision)
    return ok(good and again is None)


US = [0, 1, 999, 1000, 123456, 500000, 999999, 100000, 10]
SEC = [0, 1, 59, 30]
MIN = [0, 59, 7]
HOUR = [0, 23, 12, 1]
YEAR = [1, 1970, 1999, 2000, 2024, 9999, 100]
MONTH = [1, 2, 12, 10]
DAY = [1, 28, 9]
DAYS = [0, 1, -1, 2, 365, -365, 99999, -99999, 100000, 999999999, -999999999]
PREC = [6, 0, 3, 1, 5]


def _conv(cls, py_type, precision):
    kwargs = {} if precision == 6 else {'precision': precision}
    return cls(FakeProvider(), py_type, FakeAttr(py_type, kwargs))


def time_roundtrip(h: int, m: int, s: int, us: int, p: int) -> bool:
    """
    pre: 0 <= h < N_H and 0 <= m < 2 and 0 <= s < 2 and 0 <= us < 9 and 0 <= p < N_P
    post: _
    """
    conv = _conv(sq.SQLiteTimeConverter, dt.time, pick(p, PREC))
    v = conv.validate(dt.time(pick(h, HOUR), pick(m, MIN), pick(s, SEC), pick(us, US)))
    stored = conv.py2sql(v)
    if not isinstance(stored, str): return ok(False)
    back = conv.sql2py(stored)
    return ok(type(back) is dt.time and back == v and conv.validate(back) == back)


def datetime_roundtrip(y: int, mo: int, d: int, h: int, s: int, us: int, p: int) -> bool:
    """
    pre: 0 <= y < N_Y and 0 <= mo < 2 and 0 <= d < 1 and 0 <= h < 1 and 0 <= s < 2 and 0 <= us < 9 and 0 <= p < N_P
    post: _
    """
    conv = _conv(sq.SQLiteDatetimeConverter, dt.datetime, pick(p, PREC))
    v = conv.validate(dt.datetime(pick(y, YEAR), pick(mo, MONTH), pick(d, DAY), pick(h, HOUR), 7, pick(s, SEC), pick(us, US)))
    stored = conv.py2sql(v)
    if not isinstance(stored, str): return ok(False)
    back = conv.sql2py(stored)
    return ok(type(back) is dt.datetime and back == v and conv.validate(back) == back)


def date_roundtrip(y: int, mo: int, d: int) -> bool:
    """
    pre: 0 <= y < 7 and 0 <= mo < 4 and 0 <= d < 3
    post: _
    """
    conv = sq.SQLiteDateConverter(FakeProvider(), dt.date, FakeAttr(dt.date, {}))
    v = conv.validate(dt.date(pick(y, YEAR), pick(mo, MONTH), pick(d, DAY)))
    stored = conv.py2sql(v)
    back = conv.sql2py(stored)
    return ok(type(back) is dt.date and back == v)


BIG_IX = tuple(i for i, d in enumerate(DAYS) if abs(d) >= 30000)     # the recorded REAL-precision finding lives here


def timedelta_real_roundtrip(days: int, s: int, us: int, p: int) -> bool:
    """
    pre: 0 <= days < 11 and 0 <= s < 4 and 0 <= us < 9 and 0 <= p < 5
    pre: days not in BIG_IX
    post: _
    """
    return _td_real(days, s, us, p)


def timedelta_real_roundtrip_big(days: int, s: int, us: int, p: int) -> bool:
    """
    pre: 0 <= s < 4 and 0 <= us < 9 and 0 <= p < 5
    pre: days in BIG_IX
    post: _
    """
    return _td_real(days, s, us, p)


def _td_real(days, s, us, p):
    conv = _conv(sq.SQLiteTimedeltaConverter, dt.timedelta, pick(p, PREC))
    v = conv.validate(dt.timedelta(days=pick(days, DAYS), seconds=pick(s, SEC) * 1439, microseconds=pick(us, US)))
    stored = conv.py2sql(v)
    if not isinstance(stored, float): return ok(False)
    back = conv.sql2py(stored)
    return ok(type(back) is dt.timedelta and back == v)


def timedelta_text_roundtrip(days: int, s: int, us: int) -> bool:
    """
    pre: 0 <= days < 11 and 0 <= s < 4 and 0 <= us < 9
    post: _
    """
    # the text codec used for literals and by MySQL
    v = dt.timedelta(days=pick(days, DAYS), seconds=pick(s, SEC) * 1439, microseconds=pick(us, US))
    text = converting.timedelta2str(v)
    back = converting.str2timedelta(text)
    return ok(back == v)


def timestamp_text_roundtrip(y: int, mo: int, h: int, s: int, us: int) -> bool:
    """
    pre: 0 <= y < 3 and 0 <= mo < 2 and 0 <= h < 2 and 0 <= s < 4 and 0 <= us < 9
    post: _
    """
    v = dt.datetime(pick(y, YEAR), pick(mo, MONTH), 9, pick(h, HOUR), 7, pick(s, SEC), pick(us, US))
    return ok(pu.timestamp2datetime(pu.datetime2timestamp(v)) == v)


HARNESSES = ['int_roundtrip', 'bool_roundtrip', 'round_us', 'time_roundtrip', 'datetime_roundtrip', 'date_roundtrip',
             'timedelta_real_roundtrip', 'timedelta_real_roundtrip_big', 'timedelta_text_roundtrip', 'timestamp_text_roundtrip']
