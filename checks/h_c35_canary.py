"""Canary mutations for C35 (never active in ./check: selected by the environment variable C35_MUTANT, which
checks/c35.py removes; only the development runner at the bottom sets it).  Each mutant re-reads the CURRENT source of
the real pony function, rewrites one piece of it and installs the result for this process only; /repo is never touched.

    cd /verif && VERIF_PROCS=4 .venv/bin/python -m checks.h_c35_canary [mutant ...]
"""
import importlib, inspect, os, sys, textwrap

C, S, P, B, D = 'pony.orm.core', 'pony.orm.dbproviders.sqlite', 'pony.orm.dbproviders.postgres', 'pony.orm.sqlbuilding', 'pony.orm.dbapiprovider'

MUTANTS = {
    # name: (module, qualified name, [(old, new), ...], harnesses expected to catch it (substring for --only))
    'find_in_db_no_immediate': (C, 'EntityMeta._find_in_db_', [('if for_update: database._get_cache().immediate = True', 'pass')], 'lk0'),
    'fetch_no_immediate': (C, 'Query._actual_fetch', [('if query._for_update: cache.immediate = True', 'pass')], 'lk2'),
    'cache_hit_counts_as_locked': (C, 'EntityMeta._find_in_cache_', [('if for_update and obj not in cache.for_update:', 'if False:')], 'lk0'),
    'written_objects_count_as_locked': (C, 'EntityMeta._find_in_cache_', [('                return None, unique  # object is found, but it is not locked', '''                if obj._status_ not in ('inserted', 'updated'): return None, unique
                cache.for_update.add(obj)''')], 'lk0'),
    'sql_key_lock_options_only': (C, 'Query._construct_sql_and_arguments', [('            for_update=query._for_update,\n            nowait=query._nowait,\n            skip_locked=query._skip_locked,\n', '            lock_options=(query._nowait, query._skip_locked),\n')], 'pg_lk'),
    'sql_key_without_for_update': (C, 'Query._construct_sql_and_arguments', [('            for_update=query._for_update,\n', '')], 'lk2'),
    'sql_key_without_nowait': (C, 'Query._construct_sql_and_arguments', [('            nowait=query._nowait,\n', '')], 'pg_lk'),
    'builder_swaps_options': (B, 'SQLBuilder.SELECT_FOR_UPDATE', [("' NOWAIT' if nowait else ''", "' NOWAIT' if skip_locked else ''"), ("' SKIP LOCKED' if skip_locked else ''", "' SKIP LOCKED' if nowait else ''")], 'pg_lk|k_builder'),
    'builder_drops_nowait': (B, 'SQLBuilder.SELECT_FOR_UPDATE', [("' NOWAIT' if nowait else ''", "''")], 'pg_lk|k_builder'),
    'builder_lock_clause_first': (B, 'SQLBuilder.SELECT_FOR_UPDATE', [("return result, 'FOR UPDATE', nowait, skip_locked, '\\n'", "return 'FOR UPDATE', nowait, skip_locked, '\\n', result")], 'pg_lk|k_builder'),
    'sqlite_builder_keeps_for_update': (S, 'SQLiteBuilder.SELECT_FOR_UPDATE', [('return builder.SELECT(*sections)', "return builder.SELECT(*sections), 'FOR UPDATE\\n'")], 'sqlite_lk|k_builder'),
    'sqlite_begin_deferred': (S, 'SQLiteProvider.set_transaction_mode', [("sql = 'BEGIN IMMEDIATE TRANSACTION'", "sql = 'BEGIN TRANSACTION'")], 'sqlite_lk|k_sqlite'),
    'sqlite_no_lock': (S, 'SQLiteProvider.acquire_lock', [('provider.transaction_lock.acquire()', 'pass')], 'sqlite_lk|k_sqlite'),
    'sqlite_release_before_commit': (S, 'SQLiteProvider.commit', [('''        try:
            DBAPIProvider.commit(provider, connection, cache)
        finally:
            if in_transaction:
                cache.in_transaction = False
                provider.release_lock()''', '''        if in_transaction: provider.release_lock()
        DBAPIProvider.commit(provider, connection, cache)
        if in_transaction: cache.in_transaction = False''')], 'sqlite_lk|k_sqlite'),
    'sqlite_release_before_rollback': (S, 'SQLiteProvider.rollback', [('''        try:
            DBAPIProvider.rollback(provider, connection, cache)
        finally:
            if in_transaction:
                cache.in_transaction = False
                provider.release_lock()''', '''        if in_transaction: provider.release_lock()
        DBAPIProvider.rollback(provider, connection, cache)
        if in_transaction: cache.in_transaction = False''')], 'sqlite_lk0'),
    'session_commits_after_exception': (C, 'DBSessionContextManager._commit_or_rollback', [('if exc_type is None: can_commit = True', 'if True: can_commit = True')], 'lk0'),
    'sqlite_lock_after_begin': (S, 'SQLiteProvider.set_transaction_mode', [('        if cache.immediate:\n            provider.acquire_lock()\n        try:', '        try:'),
                                                                         ("                cursor.execute(sql)\n                cache.in_transaction = True", "                cursor.execute(sql)\n                provider.acquire_lock()\n                cache.in_transaction = True")], 'sqlite_lk|k_sqlite'),
    'pg_autocommit_left_on': (P, 'PGProvider.set_transaction_mode', [('if cache.immediate and connection.autocommit:', 'if False:')], 'pg_lk|k_pg'),
    'pg_autocommit_always_on': (P, 'PGProvider.set_transaction_mode', [('elif not cache.immediate and not connection.autocommit:', 'elif not connection.autocommit and not (db_session is not None and db_session.ddl):')], 'pg_lk|k_pg'),
    'pg_serializable_not_set': (P, 'PGProvider.set_transaction_mode', [("            cursor.execute(sql)\n", "            pass\n")], 'pg_lk|k_pg'),
    'session_serializable_not_immediate': (C, 'DBSessionContextManager.__init__', [('immediate or ddl or serializable or not optimistic', 'immediate or ddl or not optimistic')], 'lk0|k_'),
    'session_nonoptimistic_not_immediate': (C, 'DBSessionContextManager.__init__', [('immediate or ddl or serializable or not optimistic', 'immediate or ddl or serializable')], 'lk0|k_'),
    'commit_keeps_for_update': (C, 'SessionCache.commit', [('            cache.for_update.clear()\n', '')], 'lk0'),
    'identity_map_forgets_lock': (C, 'EntityMeta._get_from_identity_map_', [('        if for_update:\n            assert cache.in_transaction\n            cache.for_update.add(obj)', '        if for_update:\n            assert cache.in_transaction')], 'lk0'),
    'loaded_objects_count_as_locked': (C, 'EntityMeta._get_from_identity_map_', [('                    cache.seeds[pk_attrs].add(obj)', '                    cache.seeds[pk_attrs].add(obj); cache.for_update.add(obj)')], 'lk0'),
    'query_for_update_drops_nowait': (C, 'Query.for_update', [('_nowait=nowait', '_nowait=False')], 'pg_lk'),
    'query_for_update_drops_skip_locked': (C, 'Query.for_update', [('_skip_locked=skip_locked', '_skip_locked=False')], 'pg_lk'),
    'get_for_update_swaps_options': (C, 'EntityMeta.get_for_update', [('.for_update(nowait, skip_locked).get()', '.for_update(skip_locked, nowait).get()')], 'pg_lk1'),
    'get_for_update_kwargs_drop_nowait': (C, 'EntityMeta.get_for_update', [('entity._find_one_(kwargs, True, nowait, skip_locked)', 'entity._find_one_(kwargs, True, False, skip_locked)')], 'pg_lk0'),
    'get_for_update_accepts_both': (C, 'EntityMeta.get_for_update', [('if nowait and skip_locked:', 'if False:')], 'lk0'),
    'for_update_accepts_both': (C, 'Query.for_update', [('if nowait and skip_locked:', 'if False:')], 'lk2'),
    'prepare_never_starts_transaction_late': (C, 'SessionCache.prepare_connection_for_query_execution', [('elif cache.immediate and not cache.in_transaction:', 'elif False:')], 'lk0|k_'),
    'update_never_optimistic': (C, 'Entity._save_updated_', [('if optimistic_session and obj not in cache.for_update:', 'if False:')], 'lk0'),
    'update_ignores_lock': (C, 'Entity._save_updated_', [('if optimistic_session and obj not in cache.for_update:', 'if optimistic_session:')], 'lk0'),
    'first_loses_for_update': (C, 'Query.first', [('objects = query.without_distinct()[:1]', 'objects = query._clone(_for_update=False, _nowait=False, _skip_locked=False).without_distinct()[:1]')], 'lk3'),
    'construct_sql_ignores_for_update': (C, 'EntityMeta._construct_sql_', [("if not for_update: sql_ast = [ 'SELECT', select_list, from_list, where_list ]", "if True: sql_ast = [ 'SELECT', select_list, from_list, where_list ]")], 'pg_lk0'),
    'exec_sql_start_transaction_ignored': (C, 'Database._exec_sql', [('if start_transaction: cache.immediate = True', 'pass')], 'sqlite_lk0_wr|pg_lk0|k_'),
}


def apply(names):
    for name in names.split('+'): apply_one(name)


def apply_one(name):
    modname, qual, edits = MUTANTS[name][:3]
    from engine import env
    env.install_driver_stubs()
    mod = importlib.import_module(modname)
    owner = mod
    parts = qual.split('.')
    for p in parts[:-1]: owner = getattr(owner, p)
    attr = parts[-1]
    fn = owner.__dict__[attr] if isinstance(owner, type) else getattr(owner, attr)
    raw = inspect.unwrap(fn)
    src = inspect.getsource(raw)
    for old, new in edits:
        if old not in src: raise RuntimeError('mutant %s: text not found in %s: %r' % (name, qual, old))
        src = src.replace(old, new)
    src = textwrap.dedent(src)
    import linecache
    filename = '<mutant %s>' % name
    linecache.cache[filename] = (len(src), None, src.splitlines(True), filename)
    ns = {}
    exec(compile(src, filename, 'exec'), mod.__dict__, ns)
    setattr(owner, attr, ns[attr])


def main(argv):
    """Development runner: for every mutant run the harnesses expected to catch it through engine.ch and print what happened."""
    from engine.core import Report
    from engine import ch
    from checks import h_c35
    names = argv or list(MUTANTS)
    for name in names:
        os.environ['C35_MUTANT'] = name
        pats = MUTANTS[name][3].split('|')
        fns = [f for f in h_c35.E_HARNESSES + h_c35.K_HARNESSES if any(p in f for p in pats)]
        rep = Report('C35', 'fault_enumeration', 'canary ' + name)
        specs = [dict(module='checks.h_c35', fn=f, cond_timeout=150, path_timeout=75, setup='setup') for f in fns]
        ch.run_harnesses(rep, specs, None)
        res = ['%s=%s' % (o.name.split('.')[-1], o.verdict) for o in rep.obs]
        caught = [o for o in rep.obs if o.verdict == 'cex' and o.reproduced]
        print('%-42s %s  %s %s' % (name, 'CAUGHT' if caught else 'MISSED', ' '.join(res), rep.harness_errors[:1] or ''))
        if caught: print('    e.g. %s %r' % (caught[0].name.split('.')[-1], caught[0].cex))
        sys.stdout.flush()
    os.environ.pop('C35_MUTANT', None)


if __name__ == '__main__':
    main(sys.argv[1:])
