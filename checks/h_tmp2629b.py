from engine.ch import ok
from pony.orm import sqlbuilding
from pony.orm.dbproviders import sqlite as sq
CALLS = [0]
def rt1(k: str) -> bool:
    """
    pre: len(k) <= 3
    pre: all(c in 'a.[\\\\ 0' for c in k)
    post: _
    """
    CALLS[0] += 1
    sq.path_cache.clear()
    path = sqlbuilding.SQLBuilder.eval_json_path([k])
    keys = sq._parse_path(path)
    return ok(keys == (k,))

def rt2(k: str) -> bool:
    """
    pre: len(k) <= 2
    pre: all(c in 'a.[\\\\ 0' for c in k)
    post: _
    """
    CALLS[0] += 1
    sq.path_cache.clear()
    path = sqlbuilding.SQLBuilder.eval_json_path([k])
    keys = sq._parse_path(path)
    return ok(keys == (k,))
