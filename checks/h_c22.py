"""CrossHair harnesses for C22 (threads do not interfere through shared process state).

Under the GIL a single dict operation is atomic, so everything another thread can do to thread A through a shared cache
happens *between* A's accesses to it.  The shared dictionaries are replaced by AdvDict, which lets an ADVERSARY act before
each of A's accesses: nothing / delete the key A is about to touch / put in its place the entry another thread running the
same program location with different parameter values would legitimately have stored.  The adversary's schedule (one action
per access) is the symbolic input; CrossHair picks every schedule, the pipeline itself then runs untraced (NoTracing) - every
path is one concrete run of the real code under one schedule chosen by the solver (fault-enumeration level, not a proof).
Asserted: A's SQL text and arguments equal its single-threaded result and no exception appears that A would not get alone.
"""
import threading
from crosshair import realize, NoTracing
from engine.ch import ok
from pony.orm import core, ormtypes, asttranslation, decompiling

LATE = 2
N_ACC = 6          # accesses during which the adversary may act (later accesses: no action)
_state = {}


class AdvDict(dict):
    adversary = None      # (schedule list, alt entries dict, log)
    start = 0             # index of the first access before which the adversary may act
    other = None          # (query function, args) of the second thread for action 3
    other_results = []
    def _adv(self, key):
        adv = AdvDict.adversary
        if adv is None: return
        sched, alts, log = adv
        k = len(log) - AdvDict.start
        if k < 0 or k >= len(sched):
            log.append(0); return
        a = sched[k]; log.append(a)
        if a == 1: dict.pop(self, key, None)
        elif a == 2:
            alt = alts.get(id(self), {})
            if key in alt: dict.__setitem__(self, key, alt[key])
        elif a == 3:
            self._second_thread(adv)

    @staticmethod
    def _second_thread(adv):
        # a REAL second thread runs the same program location with its own values to completion right here (between two
        # steps of the thread under test): it must get its own single-threaded result, whatever half-finished state it sees
        AdvDict.adversary = None
        box = []
        th = threading.Thread(target=lambda: box.append(run_query(AdvDict.other[0], AdvDict.other[1])))
        th.start(); th.join(30)
        AdvDict.other_results.append(box[0] if box else ('error', 'thread did not finish', ''))
        AdvDict.adversary = adv
    def _after(self):
        # action 4: the second thread runs right AFTER this access (e.g. after an entry was published but before the publisher
        # finished initialising it in place)
        adv = AdvDict.adversary
        if adv is None: return
        sched, alts, log = adv
        k = len(log) - 1 - AdvDict.start
        if 0 <= k < len(sched) and sched[k] == 4: self._second_thread(adv)
    def get(self, key, default=None):
        self._adv(key); r = dict.get(self, key, default); self._after(); return r
    def __getitem__(self, key): self._adv(key); return dict.__getitem__(self, key)
    def __setitem__(self, key, val): self._adv(key); dict.__setitem__(self, key, val); self._after()
    def __delitem__(self, key): self._adv(key); dict.__delitem__(self, key)
    def __contains__(self, key): self._adv(key); return dict.__contains__(self, key)
    def pop(self, key, *default): self._adv(key); return dict.pop(self, key, *default)
    def setdefault(self, key, default=None): self._adv(key); return dict.setdefault(self, key, default)


def setup():
    from engine import env as E0
    from pony.orm import Required, Optional
    core.time = lambda: 0.0
    db = E0.mock_database('sqlite')
    class T(db.Entity):
        a = Required(int)
        s = Required(str)
    db.generate_mapping(check_tables=False, create_tables=False)
    caches = {}
    db._translator_cache = caches['translator'] = AdvDict()
    db._constructed_sql_cache = caches['constructed_sql'] = AdvDict()
    core.string2ast_cache = caches['string2ast'] = AdvDict()
    asttranslation.extractors_cache = caches['extractors'] = AdvDict()
    core.extractors_cache = asttranslation.extractors_cache if hasattr(core, 'extractors_cache') else None
    decompiling.ast_cache = caches['ast'] = AdvDict()
    core.adapted_sql_cache = caches['adapted_sql'] = AdvDict()
    ormtypes.raw_sql_cache = caches['raw_sql'] = AdvDict()
    _state.update(db=db, caches=caches)


def clear():
    AdvDict.adversary = None
    for c in _state['caches'].values(): dict.clear(c)


# program locations: every call of one of these functions is the SAME program location (code object), as in a server that
# handles requests in several threads
def q_slice(db, x, y):
    return core.select(t for t in db.T if t.s[:x] == y)

def q_plain(db, x, y):
    return core.select(t for t in db.T if t.a > x and t.s != y)

def q_string(db, x, y):
    return core.select('(t for t in T if t.s[x:] == y and t.a == x)', {'T': db.T}, {'x': x, 'y': y})

def q_index(db, x, y):
    return core.select(t.s[x] for t in db.T if t.s.startswith(y))

def q_filter(db, x, y):
    return db.T.select(lambda t: t.a >= x).filter(lambda t: t.s[x:] != y).order_by(lambda t: t.s[:x])

def q_raw(db, x, y):
    return core.select(t for t in db.T if core.raw_sql('t.a > $x') and t.s == y)

QUERIES = [q_slice, q_plain, q_string, q_index, q_filter, q_raw]
ARGS_A, ARGS_B = (1, 'a'), (2, 'b')          # thread A's values; the other thread's values (different pinned slice bound)


def run_query(fn, args):
    from pony.orm import db_session, rollback
    db = _state['db']
    try:
        with db_session:
            try:
                q = fn(db, *args)
                sql, arguments, _, _ = q._construct_sql_and_arguments()
                return ('ok', sql, repr(arguments))
            finally:
                rollback()
    except Exception as e:
        return ('error', type(e).__name__, str(e)[:80])


def snapshot():
    return {id(c): dict(dict.items(c)) for c in _state['caches'].values()}


def body(qi, sched):
    fn = QUERIES[qi]
    clear()
    alone = run_query(fn, ARGS_A)                 # A alone, cold caches
    clear()
    alone_b = run_query(fn, ARGS_B)               # what the other thread legitimately leaves in the caches
    alts = snapshot()
    AdvDict.other = (fn, ARGS_B)
    results = []
    for warm in (False, True):
        clear()
        if warm: run_query(fn, ARGS_A)            # A has run before (its own entries are cached), then the adversary interferes
        log = []
        AdvDict.other_results = []
        AdvDict.adversary = (sched, alts, log)
        try: got = run_query(fn, ARGS_A)
        finally: AdvDict.adversary = None
        if any(r != alone_b for r in AdvDict.other_results): got = ('other-thread-differs', AdvDict.other_results, alone_b)
        results.append((got, len(log)))
    clear()
    return alone, results


def _harness(qi, a0, a1, a2, a3, a4, a5, start=0):
    AdvDict.start = start
    # explicit branching (one solver decision per comparison) turns every symbolic action into a concrete int
    sched = [0 if a == 0 else (1 if a == 1 else (2 if a == 2 else (3 if a == 3 else 4))) for a in (a0, a1, a2, a3, a4, a5)]
    with NoTracing():
        alone, results = body(qi, sched)
    return all(got == alone for got, n in results)


# ---- preemption inside a query method -----------------------------------------------------------------------------------
# A cached translator is shared by every thread that runs the same program location.  Between two bytecodes of a query METHOD
# (count(), random(), delete(bulk=True) ...) of thread A another thread may run the same location from start to end; it must
# still build its own single-threaded SQL (a method that changes the shared translator "for a moment" breaks that).
# The preemption point is the symbolic input: the second thread runs at the k-th preemption point (see STRIDE) during A's method.

def q_ordered(db, x, y):
    return db.T.select(lambda t: t.a >= x).order_by(lambda t: (t.s, t.a))       # (x is a plain parameter: both threads share one cached translator)

ACTS = [('order_by_none', lambda q: q.order_by(None)[:]), ('count', lambda q: q.count()), ('random', lambda q: q.random(2)), ('delete', lambda q: q.delete(bulk=True)), ('first', lambda q: q.first()),
        ('without_distinct_count', lambda q: q.without_distinct().count()), ('exists', lambda q: q.exists()), ('get', lambda q: q.get()),
        ('fetch', lambda q: q[:]), ('for_update', lambda q: q.for_update()[:2]), ('len', lambda q: len(q))]
KMAX = 1024
STRIDE = 8          # preemption points: every entry into a pony function, and every STRIDE-th entry into any other Python function (copy.deepcopy ...)
_alone = {}


def run_location(ai, args, hook=None):
    """one thread's work at the program location: build the query, run method ai on it (optionally with a profile hook set for the
    duration of the method), then build the plain SQL of the same query.  Returns the SQL of the method and the plain SQL."""
    import sys
    from pony.orm import db_session, rollback
    db = _state['db']
    try:
        with db_session:
            try:
                q = q_ordered(db, *args)
                if hook is not None: sys.setprofile(hook)
                try: r = ACTS[ai][1](q)
                finally:
                    if hook is not None: sys.setprofile(None)
                method_sql = db.last_sql
                sql, arguments, _, _ = q._construct_sql_and_arguments()
                return ('ok', repr(r), method_sql, sql, repr(arguments))
            finally:
                rollback()
    except Exception as e:
        return ('error', type(e).__name__, str(e)[:80])


def _is_point(frame, m):
    if '/pony/' in frame.f_code.co_filename: return True
    m[0] += 1
    return m[0] % STRIDE == 0


def preempt_body(ai, k):
    if ai not in _alone:
        clear()
        n = [0]
        m = [0]
        def count(frame, ev, arg):
            if ev == 'call' and _is_point(frame, m): n[0] += 1
        a = run_location(ai, ARGS_A, count)
        clear()
        b = run_location(ai, ARGS_B)
        _alone[ai] = (a, b, n[0])
    alone_a, alone_b, events = _alone[ai]
    if events > KMAX: return False, 'method %s enters %d pony functions: more than the KMAX preemption points explored' % (ACTS[ai][0], events)
    if k >= events: return True, 'no such preemption point'
    clear()
    n = [0]
    box = []
    m = [0]
    def hook(frame, ev, arg):
        if ev == 'call' and _is_point(frame, m):
            n[0] += 1
            if n[0] == k + 1:
                th = threading.Thread(target=lambda: box.append(run_location(ai, ARGS_B)))
                ths.append(th)
                th.start(); th.join(1.5)          # (still alive: it waits for a lock that A holds - SQLite's write lock - and goes on when A is through)
    ths = []
    got_a = run_location(ai, ARGS_A, hook)
    for th in ths: th.join(30)
    clear()
    if not box: return (k > 0), 'the method entered fewer pony functions this time: no such preemption point'      # (k == 0 always exists)
    if got_a != alone_a: return False, 'thread A: %r, alone: %r' % (got_a, alone_a)
    if box[0] != alone_b: return False, 'second thread: %r, alone: %r' % (box[0], alone_b)
    return True, ''


def _preempt(ai, k):
    lo, hi = 0, KMAX - 1
    while lo < hi:                      # binary search: log2(KMAX) solver decisions make k concrete
        mid = (lo + hi) // 2
        if k <= mid: hi = mid
        else: lo = mid + 1
    with NoTracing():
        r, why = preempt_body(ai, lo)
    _state['why'] = why
    return r


def preempt_order_by_none(k: int) -> bool:
    """
    pre: 0 <= k < KMAX
    post: _
    """
    return ok(_preempt(0, k))


def preempt_count(k: int) -> bool:
    """
    pre: 0 <= k < KMAX
    post: _
    """
    return ok(_preempt(1, k))


def preempt_random(k: int) -> bool:
    """
    pre: 0 <= k < KMAX
    post: _
    """
    return ok(_preempt(2, k))


def preempt_delete(k: int) -> bool:
    """
    pre: 0 <= k < KMAX
    post: _
    """
    return ok(_preempt(3, k))


def preempt_first(k: int) -> bool:
    """
    pre: 0 <= k < KMAX
    post: _
    """
    return ok(_preempt(4, k))


def preempt_without_distinct_count(k: int) -> bool:
    """
    pre: 0 <= k < KMAX
    post: _
    """
    return ok(_preempt(5, k))


def preempt_exists(k: int) -> bool:
    """
    pre: 0 <= k < KMAX
    post: _
    """
    return ok(_preempt(6, k))


def preempt_get(k: int) -> bool:
    """
    pre: 0 <= k < KMAX
    post: _
    """
    return ok(_preempt(7, k))


def preempt_fetch(k: int) -> bool:
    """
    pre: 0 <= k < KMAX
    post: _
    """
    return ok(_preempt(8, k))


def preempt_for_update(k: int) -> bool:
    """
    pre: 0 <= k < KMAX
    post: _
    """
    return ok(_preempt(9, k))


def preempt_len(k: int) -> bool:
    """
    pre: 0 <= k < KMAX
    post: _
    """
    return ok(_preempt(10, k))


def adversary_q0(a0: int, a1: int, a2: int, a3: int, a4: int, a5: int) -> bool:
    """
    pre: 0 <= a0 <= 4 and 0 <= a1 <= 4 and 0 <= a2 <= 4 and 0 <= a3 <= 4 and a4 == 0 and a5 == 0
    post: _
    """
    return ok(_harness(0, a0, a1, a2, a3, a4, a5))


def adversary_q1(a0: int, a1: int, a2: int, a3: int, a4: int, a5: int) -> bool:
    """
    pre: 0 <= a0 <= 4 and 0 <= a1 <= 4 and 0 <= a2 <= 4 and 0 <= a3 <= 4 and a4 == 0 and a5 == 0
    post: _
    """
    return ok(_harness(1, a0, a1, a2, a3, a4, a5))


def adversary_q2(a0: int, a1: int, a2: int, a3: int, a4: int, a5: int) -> bool:
    """
    pre: 0 <= a0 <= 4 and 0 <= a1 <= 4 and 0 <= a2 <= 4 and 0 <= a3 <= 4 and a4 == 0 and a5 == 0
    post: _
    """
    return ok(_harness(2, a0, a1, a2, a3, a4, a5))


def adversary_q3(a0: int, a1: int, a2: int, a3: int, a4: int, a5: int) -> bool:
    """
    pre: 0 <= a0 <= 4 and 0 <= a1 <= 4 and 0 <= a2 <= 4 and 0 <= a3 <= 4 and a4 == 0 and a5 == 0
    post: _
    """
    return ok(_harness(3, a0, a1, a2, a3, a4, a5))


def adversary_q4(a0: int, a1: int, a2: int, a3: int, a4: int, a5: int) -> bool:
    """
    pre: 0 <= a0 <= 4 and 0 <= a1 <= 4 and 0 <= a2 <= 4 and 0 <= a3 <= 4 and a4 == 0 and a5 == 0
    post: _
    """
    return ok(_harness(4, a0, a1, a2, a3, a4, a5))


def adversary_q5(a0: int, a1: int, a2: int, a3: int, a4: int, a5: int) -> bool:
    """
    pre: 0 <= a0 <= 4 and 0 <= a1 <= 4 and 0 <= a2 <= 4 and 0 <= a3 <= 4 and a4 == 0 and a5 == 0
    post: _
    """
    return ok(_harness(5, a0, a1, a2, a3, a4, a5))


def adversary_late_q0(a0: int, a1: int, a2: int, a3: int, a4: int, a5: int) -> bool:
    """
    pre: 0 <= a0 <= 4 and 0 <= a1 <= 4 and 0 <= a2 <= 4 and 0 <= a3 <= 4 and a4 == 0 and a5 == 0
    post: _
    """
    return ok(_harness(0, a0, a1, a2, a3, a4, a5, start=4))

def adversary_late_q1(a0: int, a1: int, a2: int, a3: int, a4: int, a5: int) -> bool:
    """
    pre: 0 <= a0 <= 4 and 0 <= a1 <= 4 and 0 <= a2 <= 4 and 0 <= a3 <= 4 and a4 == 0 and a5 == 0
    post: _
    """
    return ok(_harness(1, a0, a1, a2, a3, a4, a5, start=4))

def adversary_late_q2(a0: int, a1: int, a2: int, a3: int, a4: int, a5: int) -> bool:
    """
    pre: 0 <= a0 <= 4 and 0 <= a1 <= 4 and 0 <= a2 <= 4 and 0 <= a3 <= 4 and a4 == 0 and a5 == 0
    post: _
    """
    return ok(_harness(2, a0, a1, a2, a3, a4, a5, start=4))

def adversary_late_q3(a0: int, a1: int, a2: int, a3: int, a4: int, a5: int) -> bool:
    """
    pre: 0 <= a0 <= 4 and 0 <= a1 <= 4 and 0 <= a2 <= 4 and 0 <= a3 <= 4 and a4 == 0 and a5 == 0
    post: _
    """
    return ok(_harness(3, a0, a1, a2, a3, a4, a5, start=4))

def adversary_late_q4(a0: int, a1: int, a2: int, a3: int, a4: int, a5: int) -> bool:
    """
    pre: 0 <= a0 <= 4 and 0 <= a1 <= 4 and 0 <= a2 <= 4 and 0 <= a3 <= 4 and a4 == 0 and a5 == 0
    post: _
    """
    return ok(_harness(4, a0, a1, a2, a3, a4, a5, start=4))

def adversary_late_q5(a0: int, a1: int, a2: int, a3: int, a4: int, a5: int) -> bool:
    """
    pre: 0 <= a0 <= 4 and 0 <= a1 <= 4 and 0 <= a2 <= 4 and 0 <= a3 <= 4 and a4 == 0 and a5 == 0
    post: _
    """
    return ok(_harness(5, a0, a1, a2, a3, a4, a5, start=4))
