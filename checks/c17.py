"""C17 - a session's writes are atomic under crashes and database errors.

CrossHair over whole real sessions on the REAL sqlite3 engine and a real database file, behind a forwarding wrapper
connection that fails at a symbolic statement number (error once / connection dies).  See checks/h_c17.py for the
scenario, the reference statement A1-A4 and every assumption.
"""
import os
from engine.core import Report
from engine import ch


def classify(spec, cex):
    """No genuine defect is known for C17; nothing is mapped to a key."""
    return None


def run(tier, seed, only=None):
    from pony.orm import core, dbapiprovider as dp
    from pony.orm.dbproviders import sqlite as ps
    rep = Report('C17', 'fault_enumeration',
                 'CrossHair explores whole real sessions (db_session, commit/rollback/flush, Database.execute/insert/get_connection, '
                 'SessionCache, SQLiteProvider transaction handling, the real SQLitePool) running on the real sqlite3 engine and a real '
                 'database file. A forwarding wrapper connection numbers every statement that would reach SQLite; the number of the '
                 'statement that fails (and of a second / third one), whether the failure is a single OperationalError before or after the '
                 'statement took effect or the death of the connection (every later call refused, raw connection closed without commit), the session mode and whether a pooled '
                 'connection exists are symbolic. Afterwards a fresh sqlite3 connection must find one of the commit-point states of '
                 'the write program (never a strict subset of a unit), not older than the last acknowledged commit; after a '
                 'survivable error no transaction is left open and a following session commits normally. Only "Confirmed over all '
                 'paths" counts.')
    S, P, D = core.SessionCache, ps.SQLiteProvider, dp.DBAPIProvider
    rep.fn(core.DBSessionContextManager._commit_or_rollback, core.commit, core.rollback, core.flush, core.rollback_and_reraise,
           core.Database._exec_sql, core.Database._exec_raw_sql, core.Database.execute, core.Database.insert,
           core.Database.get_connection, core.Database.commit, S.connect, S.reconnect,
           S.prepare_connection_for_query_execution, S.flush, S.flush_and_commit, S.commit, S.rollback, S.close,
           core.Entity._save_, core.Entity._save_created_, core.Entity._save_updated_, core.Entity._save_deleted_,
           core.Set.add_m2m, core.Set.remove_m2m, core.Query.delete,
           P.set_transaction_mode, P.commit, P.rollback, P.drop, P.release, D.commit, D.rollback, D.release, D.drop, D.execute,
           dp.Pool.connect, dp.Pool.release, dp.Pool.drop, ps.SQLitePool._connect, ps.SQLitePool.drop, ps.SQLitePool.disconnect)
    T = 150 if tier == 'quick' else 900
    # read by checks/h_c17.py in the worker processes
    os.environ.setdefault('C17_KMAX', '48')
    os.environ['C17_K2MAX'] = os.environ['C17_KMAX']
    if tier == 'thorough':
        os.environ['C17_K3MAX'] = os.environ['C17_KMAX']
        os.environ['C17_FULL'] = '1'
        os.environ['C17_WARM'] = '1'
        os.environ['C17_MODES'] = '4'
    else:
        os.environ['C17_K3MAX'] = '0'
        os.environ['C17_FULL'] = '0'
        os.environ['C17_WARM'] = '0'
        os.environ['C17_MODES'] = '3'
    from checks import h_c17
    specs = [dict(module='checks.h_c17', fn=f, cond_timeout=T, path_timeout=T / 2, setup='setup') for f in h_c17.HARNESSES]
    if only: specs = [s for s in specs if only in s['fn']]
    rep.programs = len(specs)
    rep.bounds = {
        'write programs (enumerated, one harness each)': list(h_c17.HARNESSES),
        'fault positions': 'k1 in 0..%s over every statement of the faulted session (PRAGMAs of a new connection, BEGIN IMMEDIATE, SELECT, '
                           'INSERT/UPDATE/DELETE, executemany, commit(), rollback(); numbering runs on through a retried attempt); a path issuing '
                           'more than KMAX statements fails the harness (longest program: 18 statements)' % os.environ['C17_KMAX'],
        'fault sequences': ('one fault of any kind, or two faults k1 < k2 with kinds (error-before, error-before) / (error-before, dies)' if tier == 'quick' else
                            'two faults k1 < k2 of every kind combination (death is final), or three faults k1 < k2 < k3 with kinds '
                            '(error-before, error-before, error-before | dies)'),
        'failure kinds': ['0: sqlite3.OperationalError raised once INSTEAD of the statement', '1: connection dies: this and every later call refused, raw connection '
                          'closed without commit', '2: the statement reaches SQLite and THEN sqlite3.OperationalError is raised once'],
        'session modes': list(h_c17.MODE_NAMES[:h_c17.MODES]),
        'pooled connection present': [False] if tier == 'quick' else [False, True],
        'database': 'file-backed SQLite (rollback-journal mode, the default), 4 tables, 3+2+2 seed rows',
    }
    rep.assumptions = [
        'the `sqlite` module global of pony.orm.dbproviders.sqlite points at a wrapper module: connect() opens a real sqlite3 connection and returns a '
        'forwarding wrapper; the pool is a real SQLitePool handed over through pony_pool_mockup',
        'kind 0/1: the faulted statement does not reach SQLite (a faulted commit()/rollback() leaves the transaction open); kind 2: it does, its cursor is reset, then the error is raised',
        '"dies" = every later DB-API call raises sqlite3.OperationalError and the raw connection is closed without commit: the in-process stand-in for '
        'process death at a statement boundary; pony\'s cleanup code still runs but can no longer reach the database',
        'SQLite\'s journal is trusted: a transaction that was not committed when its connection closes is gone',
        'provider.transaction_lock / pre_transaction_lock replaced per path by fakedb.ProbeLock (real threading.Lock, raises instead of blocking)',
        'pony.orm.core.time stubbed to a constant',
        'every explored path starts from a byte copy of the template database file, a fresh pool and clean session state',
        'the concrete bulk of each path runs with CrossHair\'s opcode tracer switched off (fakedb.untraced); tracing is on for every comparison of a '
        'symbolic fault position with the statement counter, the only place symbolic data is used',
    ]
    rep.assumptions.append('concrete tie (not solver-quantified): forked child processes really exit at statement k; programs: %s'
                           % (', '.join(TIE_QUICK) + ' x 3 modes' if tier == 'quick' else 'all x 4 modes'))
    rep.trusted = ['crosshair-tool 0.0.110', 'z3', 'sqlite3 / SQLite journal', 'wrapper connection + reference change lists in checks/h_c17.py',
                   'engine/fakedb.py (untraced, traced_eq, ProbeLock)']
    tie = None if only else start_tie(tier)          # runs beside the CrossHair workers
    ch.run_harnesses(rep, specs, classify)
    if tie is not None: finish_tie(rep, tie, tier)
    return rep


TIE_QUICK = ('commit_mid_raw',)


def start_tie(tier):
    """Concrete tie (NOT solver-quantified; reported as 'concrete-tie' obligations): checks/h_c17.py tie_main() - the same
    sessions in forked child processes that really end (os._exit) at statement k, for every k; the parent process then
    reads the file (SQLite's hot-journal recovery runs for real).  Quick tier: programs TIE_QUICK x 3 modes; thorough:
    every program x 4 modes."""
    import subprocess, sys
    env = dict(os.environ)
    env['C17_TIE_PROGRAMS'] = ','.join(TIE_QUICK) if tier == 'quick' else ''
    return subprocess.Popen([sys.executable, '-m', 'checks.h_c17'], env=env, stdout=subprocess.PIPE, stderr=subprocess.PIPE, text=True)


def finish_tie(rep, proc, tier):
    import json, subprocess
    from engine.core import Ob, HOLDS, CEX, INCONCLUSIVE
    try:
        out, err = proc.communicate(timeout=300 if tier == 'quick' else 3000)
    except subprocess.TimeoutExpired:
        proc.kill()
        out, err = proc.communicate()
        err = 'timeout; ' + (err or '')
    seen = 0
    for line in out.splitlines():
        try: d = json.loads(line)
        except ValueError: continue
        seen += 1
        nm = 'tie:process-death:%s: os._exit at every statement, file read by the parent process' % d['program']
        if d['bad']:
            b = d['bad'][0]
            rep.add(Ob(nm, 'concrete-tie', CEX, detail='mode %s, exit at statement %d: %s' % (b['mode'], b['k'], '; '.join(b['why'])), reproduced=True,
                       cex=dict(program=d['program'], mode=b['mode'], k=b['k']),
                       replay='# see tie_main in /verif/checks/h_c17.py: program %s, mode %s, os._exit at statement %d\n'
                              '# C17_TIE_PROGRAMS=%s PYTHONPATH=/verif /verif/.venv/bin/python -m checks.h_c17\nraise SystemExit(1)\n'
                              % (d['program'], b['mode'], b['k'], d['program'])))
        else:
            rep.add(Ob(nm, 'concrete-tie', HOLDS, detail='%d child processes' % d['runs']))
    if proc.returncode != 0 or not seen:
        rep.add(Ob('tie:process-death', 'concrete-tie', INCONCLUSIVE, detail='tie subprocess exit %r: %s' % (proc.returncode, (err or '')[-600:])))
