"""CrossHair harnesses for C26 (generated schemas are well formed) - kernels only.

What runs is the real code of pony/orm/dbschema.py (DBSchema, Table, Column, DBIndex, ForeignKey and the dialect
subclasses SQLiteSchema / PGSchema / MySQLSchema / OraSchema with their column/table classes), the real name functions
of the four providers (normalize_name, get_default_index_name, get_default_fk_name, get_default_m2m_table_name,
get_default_m2m_column_names, get_default_column_names) and, in `mapping_*`, the real Database.generate_mapping.
The providers are instantiated without a connection (`object.__new__` on a subclass: the name functions and the schema
classes only read class attributes); the subclass lowers `max_name_len` (4, 6, 8, 9 or 10) so that truncation happens with the
short names the solver can explore.

Symbolic (solver-chosen): every option flag, the dialect where it is an argument, the adjacency matrix of the
parent-table relation, and identifiers.  pony lower-cases every default name (`str.lower()` on a symbolic string costs
CrossHair ~0.6 s per path here: it forks per character over the Unicode case tables), so identifiers are built from
*symbolic choices per identifier* out of a small pool (all strings of length 1..2 over {a, A, _}; the characters the
name functions treat differently: a letter, the same letter in the other case, the separator) which are turned into
concrete strings by explicit branching before pony is called; the then-concrete real code runs under NoTracing.  The
solver still has to exhaust every combination for "Confirmed over all paths".

Reference statements (this file, not pony's code):
  * a generated name has at most max_name_len characters and is in the dialect's canonical form (a fixed point of the
    provider's normalize_name; case folding: none on SQLite, lower on PostgreSQL/MySQL, upper on Oracle);
  * after any two requests for schema objects either the second was rejected with DBSchemaError at mapping time or all
    object names registered in the schema (tables, indexes, foreign keys) are pairwise different; a rejection needs a
    reason (same column set, or the generated name is already taken);
  * a column's DDL line starts with the quoted column name and its type and says NOT NULL / UNIQUE / PRIMARY KEY /
    DEFAULT x / the dialect's auto-increment spelling / REFERENCES t (c) ON DELETE a exactly when declared;
  * table level: one line per column, composite PRIMARY KEY / CONSTRAINT .. UNIQUE lines exactly when declared,
    non-unique indexes as separate CREATE INDEX objects after their table, foreign keys as the dialect does it
    (inline / table-level on SQLite, ALTER TABLE .. ADD CONSTRAINT elsewhere) with ON DELETE exactly when declared;
  * creation order: every table once; if the parent relation is acyclic every table comes after its parents; with named
    foreign keys every foreign key is emitted exactly once and after both of its tables (also for cyclic graphs);
  * whole mappings (2 entities with relations / 1 entity with colliding attribute names, real generate_mapping on a fake
    pool): refused with MappingError/DBSchemaError/ERDiagramError or: every generated name within the limit, canonical and
    distinct; one column per mapped attribute column with the documented nullability (Required: NOT NULL; Optional: NULL,
    except strings outside Oracle that are neither unique nor part of a composite key/index); primary key, unique
    indexes, composite keys, indexes on foreign key columns, foreign keys to the parent's key with the documented
    ON DELETE, m2m tables with a composite key and two cascading foreign keys; CREATE TABLE has one line per column.
  * inheritance (mapping_inherit): every column of an attribute declared in a subclass is nullable (also the columns of a
    composite foreign key), nullable=True is honoured, the root keeps its declared nullability;
  * real limits (real_limits): the shipped providers' max_name_len equals the documented limit (PostgreSQL 63 =
    NAMEDATALEN - 1, MySQL 64, Oracle 30) and mappings with entity / attribute names of length limit-1, limit, limit+1
    generate no name beyond it.

Findings on the unchanged tree have their own harnesses (oracle_auto_pk_names*, order_qualified) so that they do not
mask anything else.
"""
import os
from engine.ch import ok
from engine import env as E0
from crosshair import NoTracing

E0.install_driver_stubs()
from pony.orm import dbschema, core
from pony.orm.core import DBSchemaError

DIALECTS = ('sqlite', 'postgres', 'mysql', 'oracle')
THOROUGH = os.environ.get('C26_THOROUGH') == '1'
# identifier pool: all strings of length 1..2 over {a, A, _} (12 names); thorough adds a second letter (20 names)
_AL = 'aA_b' if THOROUGH else 'aA_'
POOL = [a + b for a in ('',) + tuple(_AL) for b in _AL]
POOL1 = ['a', 'A', '_a'] + (['b'] if THOROUGH else [])      # column names ("_a": separator ambiguity with table "a_")
NP, NP1 = len(POOL), len(POOL1)          # 12 and 3 (thorough: 20 and 4)
_prov_cache = {}


def conc(x, n):
    """turn a symbolic int in [0, n) into a concrete one by explicit branching (realize() never lets CrossHair exhaust)"""
    for v in range(n - 1):
        if x == v: return v
    return n - 1


def cbool(b):
    return True if b else False


def provider(pname, limit):
    """an instance of the real provider class of `pname`, max_name_len lowered to `limit` (None = unchanged)"""
    key = (pname, limit)
    if key not in _prov_cache:
        import importlib
        base = importlib.import_module('pony.orm.dbproviders.' + pname).provider_cls
        ns = {} if limit is None else {'max_name_len': limit}
        cls = type(base.__name__, (base,), ns)
        _prov_cache[key] = object.__new__(cls)
    return _prov_cache[key]


def fold(pname, s):
    """documented case folding of default names per dialect"""
    if pname in ('postgres', 'mysql'): return s.lower()
    if pname == 'oracle': return s.upper()
    return s


class Conv(object):
    """the schema classes read converter.py_type (auto primary keys, GIN indexes) and converter.provider.dialect"""
    def __init__(self, py_type, prov): self.py_type, self.provider = py_type, prov


def good_name(prov, pname, name, limit):
    return isinstance(name, str) and 0 < len(name) <= limit and prov.normalize_name(name) == name and fold(pname, name) == name


def all_distinct(names):
    return len(set(names)) == len(names)


def schema_names(schema):
    """names of everything that will be created: tables + named constraints"""
    out = list(schema.tables)
    for t in schema.tables.values():
        out += [ix.name for ix in t.indexes.values() if ix.name is not None]
        out += [fk.name for fk in t.foreign_keys.values() if fk.name is not None]
    return out


# ---------------------------------------------------------------------------------------------------------------
# 1. name functions
# ---------------------------------------------------------------------------------------------------------------

def normalize_name(dialect: int, s: str, limit: int) -> bool:
    """
    pre: 0 <= dialect < 4
    pre: 1 <= limit <= 3
    pre: len(s) <= 4
    pre: all(c in 'aB_1' for c in s)
    post: _
    """
    # fully symbolic string; SQLite only has no case folding, the folding dialects are decided per character pool below
    lim = conc(limit, 4)
    pname = DIALECTS[conc(dialect, 4)]
    prov = provider(pname, lim)
    if pname != 'sqlite':
        return ok(True)
    r = prov.normalize_name(s)
    return ok(r == s[:lim] and len(r) <= lim and prov.normalize_name(r) == r)


def normalize_name_fold(dialect: int, a: int, b: int, limit: int) -> bool:
    """
    pre: 0 <= dialect < 4
    pre: 0 <= a < NP and 0 <= b < NP
    pre: 1 <= limit <= 4
    post: _
    """
    lim = conc(limit - 1, 4) + 1
    pname = DIALECTS[conc(dialect, 4)]
    s = POOL[conc(a, NP)] + POOL[conc(b, NP)]
    with NoTracing():
        prov = provider(pname, lim)
        r = prov.normalize_name(s)
        return ok(r == fold(pname, s[:lim]) and len(r) <= lim and prov.normalize_name(r) == r)


def _two_indexes(pname, limit, t1, c1, t2, c2, k1, k2, pfx, late=False):
    """two default-named index requests through the real Table.add_index (k: 0 plain, 1 unique, 2 the m2m template); the
    second table's name may carry the prefix pony itself uses for default names, so that a table name can collide with a
    generated index name; `late`: the second table is created after the first index (as m2m tables are)"""
    prov = provider(pname, limit)
    schema = prov.dbschema_cls(prov)
    conv = Conv(int, prov)
    u1, m1, u2, m2 = k1 == 1, k1 == 2, k2 == 1, k2 == 2
    t2 = ('idx_' if pfx == 1 else ('unq_' if pfx == 2 else '')) + t2
    tab1 = schema.add_table(t1)
    col1 = tab1.add_column(c1, 'INTEGER', conv, True)
    late = late and t2 != t1
    if not late:
        tab2 = tab1 if t2 == t1 else schema.add_table(t2)
    try:
        ix1 = tab1.add_index(None, (col1,), is_unique=u1, m2m=m1)
    except DBSchemaError:
        return not late and t2 != t1 and pfx != 0        # the only legitimate reason: the name is taken by table 2
    if not good_name(prov, pname, ix1.name, limit): return False
    if late:
        try: tab2 = schema.add_table(t2)
        except DBSchemaError: return t2 == ix1.name
    col2 = col1 if (tab2 is tab1 and c2 == c1) else tab2.add_column(c2, 'INTEGER', conv, True)
    try:
        ix2 = tab2.add_index(None, (col2,), is_unique=u2, m2m=m2)
    except DBSchemaError:
        # rejected at mapping time; must have a reason: same column set, or the generated name is in use
        return col2 is col1 or prov.get_default_index_name(t2, (c2,), is_unique=u2, m2m=m2) in (ix1.name, t1, t2)
    if ix2 is ix1:
        return col2 is col1 and u1 == u2
    if not good_name(prov, pname, ix2.name, limit): return False
    names = schema_names(schema)
    return (all_distinct(names) and schema.names.get(ix1.name) is ix1 and schema.names.get(ix2.name) is ix2
            and len(names) == len(schema.names))


def _index_pair(pname, t1, c1, t2, c2):
    t1, t2, c1, c2 = POOL[conc(t1, NP)], POOL[conc(t2, NP)], POOL1[conc(c1, NP1)], POOL1[conc(c2, NP1)]
    with NoTracing():
        return ok(_two_indexes(pname, 9, t1, c1, t2, c2, 0, 0, 0))


def index_pair_sqlite(t1: int, c1: int, t2: int, c2: int) -> bool:
    """
    pre: 0 <= t1 < NP and 0 <= t2 < NP and 0 <= c1 < NP1 and 0 <= c2 < NP1
    post: _
    """
    return _index_pair('sqlite', t1, c1, t2, c2)


def index_pair_postgres(t1: int, c1: int, t2: int, c2: int) -> bool:
    """
    pre: 0 <= t1 < NP and 0 <= t2 < NP and 0 <= c1 < NP1 and 0 <= c2 < NP1
    post: _
    """
    return _index_pair('postgres', t1, c1, t2, c2)


def index_pair_mysql(t1: int, c1: int, t2: int, c2: int) -> bool:
    """
    pre: 0 <= t1 < NP and 0 <= t2 < NP and 0 <= c1 < NP1 and 0 <= c2 < NP1
    post: _
    """
    return _index_pair('mysql', t1, c1, t2, c2)


def index_pair_oracle(t1: int, c1: int, t2: int, c2: int) -> bool:
    """
    pre: 0 <= t1 < NP and 0 <= t2 < NP and 0 <= c1 < NP1 and 0 <= c2 < NP1
    post: _
    """
    return _index_pair('oracle', t1, c1, t2, c2)


def index_flags(dialect: int, t2: int, k1: int, k2: int, pfx: int, late: bool) -> bool:
    """
    pre: 0 <= dialect < 4 and 0 <= t2 < NP and 0 <= pfx <= 2 and 0 <= k1 <= 2 and 0 <= k2 <= 2
    post: _
    """
    # all template combinations (plain / unique / m2m) x table named like a generated index x creation order; limit 6:
    # the names are truncated
    pname = DIALECTS[conc(dialect, 4)]
    t2 = POOL[conc(t2, NP)]
    k1, k2, pfx, late = conc(k1, 3), conc(k2, 3), conc(pfx, 3), cbool(late)
    with NoTracing():
        return ok(_two_indexes(pname, 6, 'a', 'a', t2, 'a', k1, k2, pfx, late))


def _two_fks(pname, limit, t1, c1, t2, c2, ix, pfx):
    """two default-named foreign keys (plus the index pony adds for the child columns) to one parent table"""
    prov = provider(pname, limit)
    schema = prov.dbschema_cls(prov)
    conv = Conv(int, prov)
    parent = schema.add_table('P')
    pid = parent.add_column('id', 'INTEGER', conv, True)
    parent.add_index(None, (pid,), is_pk=True)
    t2 = ('fk_' if pfx == 1 else ('idx_' if pfx == 2 else '')) + t2
    tab1 = schema.add_table(t1)
    tab2 = tab1 if t2 == t1 else schema.add_table(t2)
    col1 = tab1.add_column(c1, 'INTEGER', conv, True)
    col2 = col1 if (tab2 is tab1 and c2 == c1) else tab2.add_column(c2, 'INTEGER', conv, True)
    index_name = None if ix else False
    try:
        fk1 = tab1.add_foreign_key(None, (col1,), parent, (pid,), index_name)
    except DBSchemaError:
        return t2 != t1 and pfx != 0
    if schema.named_foreign_keys or fk1.name is not None:
        if not good_name(prov, pname, fk1.name, limit): return False
    try:
        fk2 = tab2.add_foreign_key(None, (col2,), parent, (pid,), index_name)
    except DBSchemaError:
        if col2 is col1: return True
        taken = set(schema_names(schema))
        return (prov.get_default_fk_name(t2, 'P', (c2,)) in taken
                or (ix and prov.get_default_index_name(t2, (c2,), is_unique=False, m2m=False) in taken))
    if not good_name(prov, pname, fk2.name, limit): return False
    names = schema_names(schema)
    if not (all_distinct(names) and len(names) == len(schema.names)): return False
    for n in names:
        if n not in schema.tables and not good_name(prov, pname, n, limit): return False
    # every child column got an index when one was asked for
    if ix and not ((col1,) in tab1.indexes and (col2,) in tab2.indexes): return False
    return schema.names.get(fk1.name) is fk1 and schema.names.get(fk2.name) is fk2


def _fk_pair(pname, t1, c1, t2, c2):
    t1, t2, c1, c2 = POOL[conc(t1, NP)], POOL[conc(t2, NP)], POOL1[conc(c1, NP1)], POOL1[conc(c2, NP1)]
    with NoTracing():
        return ok(_two_fks(pname, 8, t1, c1, t2, c2, True, 0))


def fk_pair_sqlite(t1: int, c1: int, t2: int, c2: int) -> bool:
    """
    pre: 0 <= t1 < NP and 0 <= t2 < NP and 0 <= c1 < NP1 and 0 <= c2 < NP1
    post: _
    """
    return _fk_pair('sqlite', t1, c1, t2, c2)


def fk_pair_postgres(t1: int, c1: int, t2: int, c2: int) -> bool:
    """
    pre: 0 <= t1 < NP and 0 <= t2 < NP and 0 <= c1 < NP1 and 0 <= c2 < NP1
    post: _
    """
    return _fk_pair('postgres', t1, c1, t2, c2)


def fk_pair_mysql(t1: int, c1: int, t2: int, c2: int) -> bool:
    """
    pre: 0 <= t1 < NP and 0 <= t2 < NP and 0 <= c1 < NP1 and 0 <= c2 < NP1
    post: _
    """
    return _fk_pair('mysql', t1, c1, t2, c2)


def fk_pair_oracle(t1: int, c1: int, t2: int, c2: int) -> bool:
    """
    pre: 0 <= t1 < NP and 0 <= t2 < NP and 0 <= c1 < NP1 and 0 <= c2 < NP1
    post: _
    """
    return _fk_pair('oracle', t1, c1, t2, c2)


def fk_flags(dialect: int, t2: int, c2: int, ix: bool, pfx: int, limit: int) -> bool:
    """
    pre: 0 <= dialect < 4 and 0 <= t2 < NP and 0 <= c2 < NP1 and 0 <= pfx <= 2 and 0 <= limit <= 1
    post: _
    """
    pname = DIALECTS[conc(dialect, 4)]
    t2, c2, ix, pfx = POOL[conc(t2, NP)], POOL1[conc(c2, NP1)], cbool(ix), conc(pfx, 3)
    lim = 6 if limit == 0 else 8
    with NoTracing():
        return ok(_two_fks(pname, lim, 'a', 'a', t2, c2, ix, pfx))


class _Ent(object):
    """duck-typed entity for the m2m name functions"""
    def __init__(self, name, pk_columns): self.__name__, self._pk = name, pk_columns
    def _get_pk_columns_(self): return self._pk


class _Attr(object):
    def __init__(self, entity, name, symmetric=False): self.entity, self.name, self.symmetric = entity, name, symmetric


def _m2m(pname, n1, second, sym, npk, pk1, lim):
    prov = provider(pname, lim)
    pks = [pk1] if npk == 1 else [pk1, 'A2']
    ent1 = _Ent(n1, pks)
    if sym:
        attr = _Attr(ent1, second, True)
        ent2 = ent1
        tname = prov.get_default_m2m_table_name(attr, attr)
        expected = n1 + '_' + second
    else:
        ent2 = _Ent(second, pks)
        tname = prov.get_default_m2m_table_name(_Attr(ent1, 'x'), _Attr(ent2, 'y'))
        expected = n1 + '_' + second
    if not (good_name(prov, pname, tname, lim) and tname == fold(pname, expected[:lim])): return False
    cols1 = prov.get_default_m2m_column_names(ent1)
    cols2 = prov.get_default_m2m_column_names(ent2)
    if not (len(cols1) == len(pks) == len(cols2)): return False
    # relationship columns of a reference to the entity (attr_name + '_' + pk column when the key is composite)
    rcols = prov.get_default_column_names(_Attr(ent2, second), pks)
    if len(rcols) != len(pks): return False
    for c in cols1 + cols2 + rcols:
        if not good_name(prov, pname, c, lim): return False
    schema = prov.dbschema_cls(prov)
    conv = Conv(int, prov)
    tab = schema.add_table(tname)
    try:
        for c in cols1 + cols2: tab.add_column(c, 'INTEGER', conv, True)
    except DBSchemaError:
        return not all_distinct(cols1 + cols2)
    return all_distinct([c.name for c in tab.column_list]) and len(tab.column_list) == 2 * len(pks)


def _m2m_h(pname, e1, x, sym, npk, p1):
    # default intermediate-table name and its column names for a many-to-many pair; the columns go through the real
    # Table.add_column of a real m2m table: either all distinct and within the limit or rejected (DBSchemaError)
    n1, second, sym, npk, pk1 = POOL[conc(e1, NP)], POOL[conc(x, NP)], cbool(sym), conc(npk - 1, 2) + 1, POOL1[conc(p1, NP1)]
    with NoTracing():
        return ok(_m2m(pname, n1, second, sym, npk, pk1, 4))


def m2m_names_sqlite(e1: int, x: int, sym: bool, npk: int, p1: int) -> bool:
    """
    pre: 0 <= e1 < NP and 0 <= x < NP and 1 <= npk <= 2 and 0 <= p1 < NP1
    post: _
    """
    return _m2m_h('sqlite', e1, x, sym, npk, p1)


def m2m_names_postgres(e1: int, x: int, sym: bool, npk: int, p1: int) -> bool:
    """
    pre: 0 <= e1 < NP and 0 <= x < NP and 1 <= npk <= 2 and 0 <= p1 < NP1
    post: _
    """
    return _m2m_h('postgres', e1, x, sym, npk, p1)


def m2m_names_mysql(e1: int, x: int, sym: bool, npk: int, p1: int) -> bool:
    """
    pre: 0 <= e1 < NP and 0 <= x < NP and 1 <= npk <= 2 and 0 <= p1 < NP1
    post: _
    """
    return _m2m_h('mysql', e1, x, sym, npk, p1)


def m2m_names_oracle(e1: int, x: int, sym: bool, npk: int, p1: int) -> bool:
    """
    pre: 0 <= e1 < NP and 0 <= x < NP and 1 <= npk <= 2 and 0 <= p1 < NP1
    post: _
    """
    return _m2m_h('oracle', e1, x, sym, npk, p1)


# ---------------------------------------------------------------------------------------------------------------
# 2. DDL emission: column lines, index / foreign-key statements, whole tables
# ---------------------------------------------------------------------------------------------------------------

ACTIONS = (None, 'CASCADE', 'SET NULL')
AUTO_WORD = {'sqlite': 'AUTOINCREMENT', 'mysql': 'AUTO_INCREMENT', 'postgres': 'SERIAL', 'oracle': None}


def _has(tokens, *words):
    """`words` occur as consecutive tokens"""
    n = len(words)
    return any(tuple(tokens[i:i + n]) == words for i in range(len(tokens) - n + 1))


def _column_line(pname, name, pk, unique, not_null, default, fk, action, is_int):
    prov = provider(pname, None)
    schema = prov.dbschema_cls(prov)
    conv = Conv(int if is_int else str, prov)
    parent = schema.add_table('P')
    pid = parent.add_column('id', 'INTEGER', conv, True)
    parent.add_index(None, (pid,), is_pk=True)
    tab = schema.add_table('T')
    sql_default = (None, True, "'x'")[default]
    sql_type = 'INTEGER' if is_int else 'TEXT'
    col = tab.add_column(name, sql_type, conv, not_null, sql_default)
    other = tab.add_column('zz', 'INTEGER', conv, True)
    if pk: tab.add_index(None, (col,), is_pk=('auto' if pk == 2 else True))
    else:
        tab.add_index(None, (other,), is_pk=True)
        if unique: tab.add_index(None, (col,), is_unique=True)
    on_delete = ACTIONS[action]
    if fk: fkey = tab.add_foreign_key(None, (col,), parent, (pid,), False, on_delete)
    line = col.get_sql()
    q = prov.quote_char
    head = q + name.replace(q, q + q) + q + ' '
    if not line.startswith(head): return False
    rest = line[len(head):]
    toks = rest.split(' ')
    if 'REFERENCES' in toks:                       # constraint words are looked for before the REFERENCES clause
        k = toks.index('REFERENCES'); toks, ref_toks = toks[:k], toks[k:]
    else: ref_toks = []
    auto = pk == 2 and is_int and AUTO_WORD[pname] is not None
    # type (PostgreSQL replaces it by SERIAL for auto keys)
    if not (toks[0] == sql_type or (auto and pname == 'postgres' and toks[0] == 'SERIAL')): return False
    if auto and not _has(toks, AUTO_WORD[pname]): return False
    if not auto and any(_has(toks, w) for w in ('AUTOINCREMENT', 'AUTO_INCREMENT', 'SERIAL')): return False
    if _has(toks, 'PRIMARY', 'KEY') != bool(pk): return False
    if toks.count('PRIMARY') > 1 or toks.count('UNIQUE') > 1 or toks.count('NULL') > 1 or toks.count('DEFAULT') > 1: return False
    # UNIQUE exactly when declared unique (a primary key is unique by itself)
    if _has(toks, 'UNIQUE') != bool(unique and not pk): return False
    # NOT NULL: declared => said (PRIMARY KEY implies it, except on SQLite where only INTEGER PRIMARY KEY does)
    said_nn = _has(toks, 'NOT', 'NULL')
    if pk:
        if pname == 'sqlite' and not auto and not said_nn: return False
    elif said_nn != bool(not_null): return False
    if 'NULL' in toks and not said_nn: return False
    # DEFAULT
    if _has(toks, 'DEFAULT', "'x'") != (default == 2): return False
    if ('DEFAULT' in toks) != (default == 2): return False
    # inline REFERENCES only where foreign keys are not named constraints (SQLite)
    inline = fk and schema.inline_fk_syntax and not schema.named_foreign_keys
    ref = ('REFERENCES', q + 'P' + q, '(' + q + 'id' + q + ')')
    if bool(ref_toks) != bool(inline): return False
    if inline and tuple(ref_toks) != ref + ((('ON', 'DELETE') + tuple(on_delete.split(' '))) if on_delete else ()): return False
    if fk and not inline:
        stmt = fkey.get_create_command()
        want = ' '.join(('ALTER', 'TABLE', q + 'T' + q, 'ADD', 'CONSTRAINT', q + fkey.name.replace(q, q + q) + q, 'FOREIGN', 'KEY', '(' + head[:-1] + ')') + ref)
        if not stmt.startswith(want): return False
        if stmt[len(want):] != ((' ON DELETE ' + on_delete) if on_delete else ''): return False
    return True


COLNAMES = ('a', 'a"b', '`', 'A b')


def _column(pname, nm, pk, unique, not_null, default, fk, action, is_int):
    nm, pk, default, action = COLNAMES[conc(nm, 4)], conc(pk, 3), conc(default, 3), conc(action, 3)
    unique, not_null, fk, is_int = cbool(unique), cbool(not_null), cbool(fk), cbool(is_int)
    with NoTracing():
        return ok(_column_line(pname, nm, pk, unique, not_null, default, fk, action, is_int))


def column_sqlite(nm: int, pk: int, unique: bool, not_null: bool, default: int, fk: bool, action: int, is_int: bool) -> bool:
    """
    pre: 0 <= pk <= 2 and 0 <= default <= 2 and 0 <= action <= 2 and 0 <= nm <= 3
    post: _
    """
    return _column('sqlite', nm, pk, unique, not_null, default, fk, action, is_int)


def column_postgres(nm: int, pk: int, unique: bool, not_null: bool, default: int, fk: bool, action: int, is_int: bool) -> bool:
    """
    pre: 0 <= pk <= 2 and 0 <= default <= 2 and 0 <= action <= 2 and 0 <= nm <= 3
    post: _
    """
    return _column('postgres', nm, pk, unique, not_null, default, fk, action, is_int)


def column_mysql(nm: int, pk: int, unique: bool, not_null: bool, default: int, fk: bool, action: int, is_int: bool) -> bool:
    """
    pre: 0 <= pk <= 2 and 0 <= default <= 2 and 0 <= action <= 2 and 0 <= nm <= 3
    post: _
    """
    return _column('mysql', nm, pk, unique, not_null, default, fk, action, is_int)


def column_oracle(nm: int, pk: int, unique: bool, not_null: bool, default: int, fk: bool, action: int, is_int: bool) -> bool:
    """
    pre: 0 <= pk <= 2 and 0 <= default <= 2 and 0 <= action <= 2 and 0 <= nm <= 3
    post: _
    """
    return _column('oracle', nm, pk, unique, not_null, default, fk, action, is_int)


def _table_ddl(pname, pk2, uniq2, uniq1, idx, fk, action, t_ix):
    """a table with columns a, b, c: primary key (a) or (a, b); optional composite unique (b, c), single unique (c),
    plain index (c) or (b, c); optional foreign key (b) or (b, c) to a parent table"""
    prov = provider(pname, None)
    schema = prov.dbschema_cls(prov)
    conv = Conv(int, prov)
    q = prov.quote_char
    def qn(n): return q + n + q
    def cl(*ns): return '(' + ', '.join(qn(n) for n in ns) + ')'
    parent = schema.add_table('P')
    p1 = parent.add_column('x', 'INTEGER', conv, True)
    p2 = parent.add_column('y', 'INTEGER', conv, True)
    parent.add_index(None, (p1, p2), is_pk=True)
    tab = schema.add_table('T')
    a = tab.add_column('a', 'INTEGER', conv, True)
    b = tab.add_column('b', 'INTEGER', conv, True)
    c = tab.add_column('c', 'INTEGER', conv, False)
    tab.add_index(None, (a, b) if pk2 else (a,), is_pk=True)
    if uniq2: u2 = tab.add_index(None, (b, c), is_unique=True)
    if uniq1: tab.add_index(None, (c,), is_unique=True)
    ix = None
    if idx == 1 and not uniq1: ix = tab.add_index(None, (c,), is_unique=False)
    if idx == 2 and not uniq2: ix = tab.add_index(None, (c, b), is_unique=False)
    on_delete = ACTIONS[action]
    fkey = None
    if fk == 1: fkey = tab.add_foreign_key(None, (b,), parent, (p1,), False, on_delete)
    if fk == 2: fkey = tab.add_foreign_key(None, (b, c), parent, (p1, p2), None if t_ix else False, on_delete)
    auto_ix = [i for i in tab.indexes.values() if i is not ix and not i.is_pk and not i.is_unique]
    created = set([parent])
    objs = tab.get_objects_to_create(created)
    if objs[0] is not tab or tab not in created: return False
    ddl = tab.get_create_command()
    lines = ddl.split('\n')
    if lines[0] != 'CREATE TABLE ' + qn('T') + ' (' or lines[-1] != ')': return False
    body = lines[1:-1]
    if any(not l.startswith('  ') for l in body): return False
    body = [l[2:] for l in body]
    if any(not l.endswith(',') for l in body[:-1]) or body[-1].endswith(','): return False
    body = [l.rstrip(',') for l in body]
    cols, rest = body[:3], body[3:]
    if [l.split(' ')[0] for l in cols] != [qn('a'), qn('b'), qn('c')]: return False
    # primary key: composite as a table constraint, single inside the column line
    pk_line = 'PRIMARY KEY ' + cl('a', 'b')
    if (pk_line in rest) != bool(pk2): return False
    if ('PRIMARY KEY' in cols[0]) == bool(pk2): return False
    if 'PRIMARY KEY' in cols[1] or 'PRIMARY KEY' in cols[2]: return False
    # nullability as declared (a, b not null; c nullable)
    if 'NOT NULL' in cols[2] or 'NOT NULL' not in cols[1]: return False
    if not pk2 and pname == 'sqlite' and 'NOT NULL' not in cols[0]: return False
    if pk2 and 'NOT NULL' not in cols[0]: return False
    # unique constraints
    if ('UNIQUE' in cols[2]) != bool(uniq1): return False
    if 'UNIQUE' in cols[0] or 'UNIQUE' in cols[1]: return False
    want_u2 = ('CONSTRAINT ' + qn(u2.name) + ' UNIQUE ' + cl('b', 'c')) if uniq2 else None
    if uniq2 and want_u2 not in rest: return False
    if sum(1 for l in rest if 'UNIQUE' in l) != (1 if uniq2 else 0): return False
    # plain indexes are separate objects, created after the table
    sep_ix = [o for o in objs[1:] if isinstance(o, dbschema.DBIndex)]
    want_ix = ([ix] if ix is not None else []) + auto_ix
    if sorted(id(o) for o in sep_ix) != sorted(id(o) for o in want_ix): return False
    if fk == 2 and t_ix and not uniq2 and not auto_ix: return False      # child columns (b, c) need an index
    for o in sep_ix:
        cmd = o.get_create_command()
        if cmd != 'CREATE INDEX ' + qn(o.name) + ' ON ' + qn('T') + ' ' + cl(*[col.name for col in o.columns]): return False
    if any('INDEX' in l for l in rest): return False
    # foreign key
    fk_objs = [o for o in objs[1:] if isinstance(o, dbschema.ForeignKey)]
    tail = (' ON DELETE ' + on_delete) if on_delete else ''
    if fkey is None:
        return not fk_objs and not any('REFERENCES' in l for l in body)
    ccols, pcols = (('b',), ('x',)) if fk == 1 else (('b', 'c'), ('x', 'y'))
    if schema.named_foreign_keys:
        if fk_objs != [fkey] or any('REFERENCES' in l for l in body): return False
        return fkey.get_create_command() == ('ALTER TABLE ' + qn('T') + ' ADD CONSTRAINT ' + qn(fkey.name) + ' FOREIGN KEY ' + cl(*ccols)
                                             + ' REFERENCES ' + qn('P') + ' ' + cl(*pcols) + tail)
    # SQLite: inside CREATE TABLE, inline for one column, table-level otherwise
    if fk_objs: return False
    clause = 'REFERENCES ' + qn('P') + ' ' + cl(*pcols) + tail
    if fk == 1:
        return cols[1].endswith(' ' + clause) and sum(1 for l in body if 'REFERENCES' in l) == 1
    return ('FOREIGN KEY ' + cl(*ccols) + ' ' + clause) in rest and sum(1 for l in body if 'REFERENCES' in l) == 1


def table_ddl(dialect: int, pk2: bool, uniq2: bool, uniq1: bool, idx: int, fk: int, action: int, t_ix: bool) -> bool:
    """
    pre: 0 <= dialect < 4 and 0 <= idx <= 2 and 0 <= fk <= 2 and 0 <= action <= 2
    post: _
    """
    pname = DIALECTS[conc(dialect, 4)]
    pk2, uniq2, uniq1, t_ix = cbool(pk2), cbool(uniq2), cbool(uniq1), cbool(t_ix)
    idx, fk, action = conc(idx, 3), conc(fk, 3), conc(action, 3)
    with NoTracing():
        return ok(_table_ddl(pname, pk2, uniq2, uniq1, idx, fk, action, t_ix))


# ---------------------------------------------------------------------------------------------------------------
# 3. creation order
# ---------------------------------------------------------------------------------------------------------------

def _acyclic(n, adj):
    """Kahn's algorithm on adj[child][parent]"""
    left = set(range(n))
    while left:
        free = [i for i in left if not any(adj[i][j] and j in left for j in range(n) if j != i)]
        if not free: return False
        left -= set(free)
    return True


def _order(pname, n, adj, qual=None):
    """adj[i][j]: table i has a foreign key to table j (i == j: self reference); qual[i]: the table name is qualified"""
    prov = provider(pname, None)
    schema = prov.dbschema_cls(prov)
    conv = Conv(int, prov)
    tabs, ids = [], []
    for i in range(n):
        t = schema.add_table(('main' if pname == 'sqlite' else 'public', 'T%d' % i) if qual and qual[i] else 'T%d' % i)
        c = t.add_column('id', 'INTEGER', conv, True)
        t.add_index(None, (c,), is_pk=True)
        tabs.append(t); ids.append(c)
    fks = []
    for i in range(n):
        for j in range(n):
            if adj[i][j]:
                c = tabs[i].add_column('r%d' % j, 'INTEGER', conv, True)
                fks.append(tabs[i].add_foreign_key(None, (c,), tabs[j], (ids[j],)))
    # the relation the real constructors derived must be the declared one
    for i in range(n):
        if tabs[i].parent_tables != set(tabs[j] for j in range(n) if j != i and adj[i][j]): return False
    order = schema.order_tables_to_create()
    if len(order) != n or set(order) != set(tabs): return False
    pos = {t: k for k, t in enumerate(order)}
    if _acyclic(n, adj):
        for i in range(n):
            for j in range(n):
                if i != j and adj[i][j] and not pos[tabs[j]] < pos[tabs[i]]: return False
    # objects in emission order (what generate_create_script / create_tables iterate over)
    created, objs = set(), []
    for t in order: objs.extend(t.get_objects_to_create(created))
    seen_tables = set()
    emitted = []
    for o in objs:
        if isinstance(o, dbschema.Table):
            if o in seen_tables: return False
            seen_tables.add(o)
        elif isinstance(o, dbschema.ForeignKey):
            if o.child_table not in seen_tables or o.parent_table not in seen_tables: return False
            emitted.append(o)
        elif isinstance(o, dbschema.DBIndex):
            if o.table not in seen_tables: return False
    if seen_tables != set(tabs): return False
    if schema.named_foreign_keys:
        if len(emitted) != len(fks) or set(emitted) != set(fks): return False
    elif emitted: return False
    script = schema.generate_create_script()
    return len(script.split(schema.command_separator)) == len(objs)


def order3(dialect: bool, e01: bool, e02: bool, e10: bool, e12: bool, e20: bool, e21: bool, s0: bool, s1: bool, s2: bool) -> bool:
    """ post: _ """
    pname = 'postgres' if dialect else 'sqlite'
    adj = [[cbool(s0), cbool(e01), cbool(e02)], [cbool(e10), cbool(s1), cbool(e12)], [cbool(e20), cbool(e21), cbool(s2)]]
    with NoTracing():
        return ok(_order(pname, 3, adj))


def order_qualified(dialect: bool, q0: bool, q1: bool, q2: bool, e01: bool, e10: bool, e12: bool, e21: bool, e02: bool) -> bool:
    """ post: _ """
    # schema-qualified table names ('main', 'T') / ('public', 'T') mixed with plain ones: _table_ accepts both
    pname = 'postgres' if dialect else 'sqlite'
    adj = [[False, cbool(e01), cbool(e02)], [cbool(e10), False, cbool(e12)], [False, cbool(e21), False]]
    qual = [cbool(q0), cbool(q1), cbool(q2)]
    with NoTracing():
        return ok(_order(pname, 3, adj, qual))


def _order4(d, e01, e10, e02, e03, e12, e13, e20, e21, e23, e30, e31, e32):
    pname = 'sqlite' if (THOROUGH and d) else 'postgres'       # quick: named foreign keys only (d is not looked at)
    adj = [[False, e01, cbool(e02), cbool(e03)], [e10, False, cbool(e12), cbool(e13)],
           [cbool(e20), cbool(e21), False, cbool(e23)], [cbool(e30), cbool(e31), cbool(e32), False]]
    with NoTracing():
        return ok(_order(pname, 4, adj))


def order4_a(d: bool, e02: bool, e03: bool, e12: bool, e13: bool, e20: bool, e21: bool, e23: bool, e30: bool, e31: bool, e32: bool) -> bool:
    """ post: _ """
    return _order4(d, False, False, e02, e03, e12, e13, e20, e21, e23, e30, e31, e32)


def order4_b(d: bool, e02: bool, e03: bool, e12: bool, e13: bool, e20: bool, e21: bool, e23: bool, e30: bool, e31: bool, e32: bool) -> bool:
    """ post: _ """
    return _order4(d, False, True, e02, e03, e12, e13, e20, e21, e23, e30, e31, e32)


def order4_c(d: bool, e02: bool, e03: bool, e12: bool, e13: bool, e20: bool, e21: bool, e23: bool, e30: bool, e31: bool, e32: bool) -> bool:
    """ post: _ """
    return _order4(d, True, False, e02, e03, e12, e13, e20, e21, e23, e30, e31, e32)


def order4_d(d: bool, e02: bool, e03: bool, e12: bool, e13: bool, e20: bool, e21: bool, e23: bool, e30: bool, e31: bool, e32: bool) -> bool:
    """ post: _ """
    return _order4(d, True, True, e02, e03, e12, e13, e20, e21, e23, e30, e31, e32)


# ---------------------------------------------------------------------------------------------------------------
# 4. whole mappings (real Database.generate_mapping over a provider with a lowered name limit; no backend)
# ---------------------------------------------------------------------------------------------------------------

LIMIT_M = 10
_mock_cls = {}


def mock_db(pname, limit):
    """engine.env.mock_database with max_name_len lowered"""
    import importlib
    from pony.orm import Database
    if (pname, limit) not in _mock_cls:
        base = importlib.import_module('pony.orm.dbproviders.' + pname).provider_cls
        ns = dict(json1_available=False, server_version=E0.SERVER_VERSIONS[pname], inspect_connection=lambda provider, connection: None)
        if limit is not None: ns['max_name_len'] = limit
        _mock_cls[(pname, limit)] = type(base.__name__, (base,), ns)
    db = Database()
    args = (':memory:',) if pname == 'sqlite' else ()
    db._bind(_mock_cls[(pname, limit)], *args, pony_pool_mockup=E0.FakePool())
    return db


REJECTED = (core.MappingError, core.DBSchemaError, core.ERDiagramError)


DOC_LIMIT = {'postgres': 63, 'mysql': 64, 'oracle': 30, 'sqlite': None}
"""documented identifier limits: PostgreSQL NAMEDATALEN - 1 = 63 bytes (manual 4.1.1); MySQL 64 characters (manual 9.2.1);
Oracle 30 bytes (before 12.2, the versions pony's provider targets); SQLite has none (pony uses 1024)"""


def _fk_types_ok(fk):
    """every referencing column has the type of the key column it references (auto-increment keys: the plain integer type
    the provider's own get_fk_type names for them)"""
    if len(fk.child_columns) != len(fk.parent_columns): return False
    for c, p in zip(fk.child_columns, fk.parent_columns):
        want = p.converter.get_fk_type(p.sql_type) if p.converter is not None else p.sql_type
        if c.sql_type != want: return False
    return True


def _check_schema(db, pname, limit, expect_cols, nullable=()):
    """shared assertions on a generated schema: names, and the schema matches the entity model; `nullable`: names of
    attributes declared with nullable=True; limit None: the provider's real limit, checked against the documented one"""
    prov, schema = db.provider, db.schema
    if limit is None: limit = DOC_LIMIT[pname] or prov.max_name_len
    names = schema_names(schema)
    if not all_distinct(names): return False
    for n in names:
        if not good_name(prov, pname, n, limit): return False
    for t in schema.tables.values():
        cn = [c.name for c in t.column_list]
        if not all_distinct(cn): return False
        for n in cn:
            if n == 'classtype': continue                  # the discriminator column is named explicitly, not by a name function
            if not good_name(prov, pname, n, limit): return False
        if t.pk_index is None: return False
    total = 0
    for ent in db.entities.values():
        t = schema.tables[ent._table_]
        if tuple(c.name for c in t.pk_index.columns) != tuple(ent._pk_columns_): return False
        for attr in ent._new_attrs_:
            if attr.is_collection:
                if attr.reverse.is_collection:
                    mt = schema.tables[attr.table]
                    # intermediate table: primary key over all columns, a cascading foreign key per side
                    if tuple(mt.pk_index.columns) != tuple(mt.column_list): return False
                    if len(mt.column_list) != len(ent._pk_columns_) + len(attr.reverse.entity._pk_columns_): return False
                    if len(mt.foreign_keys) != 2: return False
                    for fk in mt.foreign_keys.values():
                        if fk.on_delete != 'CASCADE' or fk.parent_columns != fk.parent_table.pk_index.columns: return False
                        if not _fk_types_ok(fk): return False
                continue
            cols = attr.columns
            total += len(cols)
            for cname in cols:
                col = t.column_dict.get(cname)
                if col is None: return False
                # nullability as declared: Required -> NOT NULL; Optional -> NULL, except strings (stored as '' ) outside Oracle
                # (an optional string that is unique or part of a composite key/index is nullable as well)
                in_index = attr.is_unique or any(attr in ix.attrs for ix in ent._indexes_)
                # every attribute declared in a subclass is nullable (single-table inheritance); nullable=True as declared
                if ent._root_ is not ent or attr.name in nullable: want_nn = False
                elif attr.is_required: want_nn = True
                elif attr.py_type is str and pname != 'oracle' and not in_index: want_nn = True
                else: want_nn = False
                if bool(col.is_not_null) != want_nn and not col.is_pk: return False
            cobjs = tuple(t.column_dict[c] for c in cols)
            if not cols: continue
            if attr.is_unique and not attr.is_pk:
                ix = t.indexes.get(cobjs)
                if ix is None or not ix.is_unique: return False
            if attr.index and not attr.is_unique:
                if not any(k[:len(cobjs)] == cobjs for k in t.indexes): return False
            if attr.reverse:
                fk = t.foreign_keys.get(cobjs)
                pt = schema.tables[attr.reverse.entity._table_]
                if fk is None or fk.parent_table is not pt or fk.parent_columns != pt.pk_index.columns: return False
                if not _fk_types_ok(fk): return False
                want = 'CASCADE' if attr.reverse.cascade_delete else ('SET NULL' if not attr.is_required else None)
                if fk.on_delete != want: return False
                if not any(k[:len(cobjs)] == cobjs for k in t.indexes): return False
        for key in ent._keys_:
            cobjs = tuple(t.column_dict[c] for a in key for c in a.columns)
            ix = t.indexes.get(cobjs)
            if ix is None or not ix.is_unique: return False
    ntab = sum(len(t.column_list) for t in schema.tables.values() if t.entities)
    if total != ntab or (expect_cols is not None and total != expect_cols): return False
    # DDL: one column line per column, every statement mentions only names within the limit (checked above)
    script = schema.generate_create_script()
    cmds = script.split(schema.command_separator)
    n_create = sum(1 for c in cmds if c.startswith('CREATE TABLE '))
    if n_create != len(schema.tables): return False
    for t in schema.tables.values():
        ddl = t.get_create_command()
        lines = [l for l in ddl.split('\n')[1:] if l.startswith('  ' + prov.quote_char)]
        if len(lines) != len(t.column_list): return False
    return True


def define(db, name, lines):
    """class <name>(db.Entity) with the given body lines (a class statement: PrimaryKey(a, b) / composite_key need the
    class namespace of a real class body)"""
    from pony import orm
    ns = dict(vars(orm)); ns['db'] = db
    src = 'class %s(db.Entity):\n' % name + ''.join('    %s\n' % l for l in (lines or ['pass']))
    exec(src, ns)
    return ns[name]


def _mapping_rel(pname, la, lb, pk2, rel1, rel2, self_rel):
    db = mock_db(pname, LIMIT_M)
    NA, NB = 'A' + 'a' * (la - 1), 'B' + 'b' * (lb - 1)
    A, B = [], []
    ncols = 0
    if pk2:
        A += ['x = Required(int)', 'y = Required(str, 20)', 'PrimaryKey(x, y)']      # key columns of different types
        npk = 2
    else: npk = 1
    B.append('id = PrimaryKey(str, 10)')                                              # ... and different from B's key type
    ncols += npk + 1                           # A's key + B's id
    S = dict(NA=NA, NB=NB)
    if rel1 == 1: B.append('a = Required("%(NA)s")' % S); A.append('bs = Set("%(NB)s")' % S); ncols += npk
    elif rel1 == 2: B.append('a = Optional("%(NA)s")' % S); A.append('bs = Set("%(NB)s")' % S); ncols += npk
    elif rel1 == 3: B.append('as1 = Set("%(NA)s", reverse="bs1")' % S); A.append('bs1 = Set("%(NB)s", reverse="as1")' % S)
    if rel2 == 1: B.append('as2 = Set("%(NA)s", reverse="bs2")' % S); A.append('bs2 = Set("%(NB)s", reverse="as2")' % S)
    elif rel2 == 2:
        B.append('longer_ref = Optional("%(NA)s", reverse="longer_set")' % S); A.append('longer_set = Set("%(NB)s", reverse="longer_ref")' % S)
        ncols += npk
    if self_rel == 1: A.append('friends = Set("%(NA)s", reverse="friends")' % S)
    elif self_rel == 2:
        A.append('parent = Optional("%(NA)s", reverse="children")' % S); A.append('children = Set("%(NA)s", reverse="parent")' % S)
        ncols += npk
    elif self_rel == 3: A.append('s1 = Set("%(NA)s", reverse="s2")' % S); A.append('s2 = Set("%(NA)s", reverse="s1")' % S)
    try:
        define(db, NA, A)
        define(db, NB, B)
        db.generate_mapping(check_tables=False, create_tables=False)
    except REJECTED:
        return True
    return _check_schema(db, pname, LIMIT_M, ncols)


def _mapping_rel_h(pname, la, lb, pk2, rel1, rel2, self_rel):
    la, lb = (1, 5, 9)[conc(la, 3)], (1, 5, 9)[conc(lb, 3)]
    pk2, rel1, rel2, self_rel = cbool(pk2), conc(rel1, 4), conc(rel2, 3), conc(self_rel, 4)
    with NoTracing():
        return ok(_mapping_rel(pname, la, lb, pk2, rel1, rel2, self_rel))


def mapping_rel_sqlite(la: int, lb: int, pk2: bool, rel1: int, rel2: int, self_rel: int) -> bool:
    """
    pre: 0 <= la <= 2 and 0 <= lb <= 2 and 0 <= rel1 <= 3 and 0 <= rel2 <= 2 and 0 <= self_rel <= 3
    post: _
    """
    return _mapping_rel_h('sqlite', la, lb, pk2, rel1, rel2, self_rel)


def mapping_rel_postgres(la: int, lb: int, pk2: bool, rel1: int, rel2: int, self_rel: int) -> bool:
    """
    pre: 0 <= la <= 2 and 0 <= lb <= 2 and 0 <= rel1 <= 3 and 0 <= rel2 <= 2 and 0 <= self_rel <= 3
    post: _
    """
    return _mapping_rel_h('postgres', la, lb, pk2, rel1, rel2, self_rel)


def mapping_rel_mysql(la: int, lb: int, pk2: bool, rel1: int, rel2: int, self_rel: int) -> bool:
    """
    pre: 0 <= la <= 2 and 0 <= lb <= 2 and 0 <= rel1 <= 3 and 0 <= rel2 <= 2 and 0 <= self_rel <= 3
    post: _
    """
    return _mapping_rel_h('mysql', la, lb, pk2, rel1, rel2, self_rel)


def mapping_rel_oracle(la: int, lb: int, pk2: bool, rel1: int, rel2: int, self_rel: int) -> bool:
    """
    pre: 0 <= la <= 2 and 0 <= lb <= 2 and 0 <= rel1 <= 3 and 0 <= rel2 <= 2 and 0 <= self_rel <= 3
    post: _
    """
    return _mapping_rel_h('oracle', la, lb, pk2, rel1, rel2, self_rel)


def _mapping_inherit(pname, pk2, rel, where, data):
    """Room (single or composite key) <- Event hierarchy: the reference is declared in the root or in a subclass, as
    Required / Optional / Required(nullable=True); the subclass also has a data attribute"""
    db = mock_db(pname, LIMIT_M)
    room = ['building = Required(str)', 'number = Required(int)', 'PrimaryKey(building, number)'] if pk2 else []
    npk = 2 if pk2 else 1
    decl = ('room = Required("Room")', 'room = Optional("Room")', 'room = Required("Room", nullable=True)')[rel]
    dattr = ('cap = Required(int)', 'cap = Optional(str)', 'cap = Required(str)', 'cap = Optional(int, unique=True)')[data]
    root, sub = ['title = Required(str)'], [dattr]
    (sub if where else root).append(decl)
    room.append('events = Set("%s")' % ('Lecture' if where else 'Event'))
    try:
        define(db, 'Room', room)
        Event = define(db, 'Event', root)
        ns = {'Event': Event}
        exec('class Lecture(Event):\n' + ''.join('    %s\n' % l for l in sub), dict(vars(__import__('pony.orm', fromlist=['x'])), **ns))
        exec('class Seminar(Event):\n    pass\n', dict(ns))
        db.generate_mapping(check_tables=False, create_tables=False)
    except REJECTED:
        return True
    # Room key + Event: id, classtype, title + cap + reference columns
    return _check_schema(db, pname, LIMIT_M, npk + 3 + 1 + npk, nullable=('room',) if rel == 2 else ())


def mapping_inherit(dialect: int, pk2: bool, rel: int, where: bool, data: int) -> bool:
    """
    pre: 0 <= dialect < 4 and 0 <= rel <= 2 and 0 <= data <= 3
    post: _
    """
    pname = DIALECTS[conc(dialect, 4)]
    pk2, rel, where, data = cbool(pk2), conc(rel, 3), cbool(where), conc(data, 4)
    with NoTracing():
        return ok(_mapping_inherit(pname, pk2, rel, where, data))


TIME_DEFAULT = {'sqlite': 6, 'postgres': 6, 'mysql': 0, 'oracle': 6}
"""fractional-second digits of a column declared WITHOUT a precision: SQLite keeps the text pony writes (6 digits), PostgreSQL
TIMESTAMP/TIME/INTERVAL default to 6 (manual 8.5), Oracle TIMESTAMP defaults to 6, MySQL DATETIME/TIME default to 0 (manual 11.2.6)"""


def _time_type(pname, kind, p):
    import datetime
    db = mock_db(pname, None)
    db.provider.max_time_precision = 6               # (a server that supports fractional seconds: MySQL >= 5.6.4)
    py = (datetime.datetime, datetime.time, datetime.timedelta)[kind]
    kw = '' if p < 0 else ', precision=%d' % p
    ns = {'datetime': datetime}
    try:
        E = define(db, 'E', ['import datetime', 'v = Optional(datetime.%s%s)' % (py.__name__, kw)])
        db.generate_mapping(check_tables=False, create_tables=False)
    except REJECTED:
        return True
    except (TypeError, ValueError):
        return True
    col = db.schema.tables[E._table_].column_dict[E.v.columns[0]]
    sql_type = col.sql_type
    eff = TIME_DEFAULT[pname] if p < 0 else p          # digits the converter keeps
    if E.v.converters[0].precision != eff and not (p < 0): return False
    import re
    digits = re.findall(r'\((\d+)\)', sql_type)
    if eff == TIME_DEFAULT[pname]:
        # the bare type name already means this precision; an explicit "(p)" with the same value is fine too
        return all(int(d) == eff or 'DAY(' in sql_type for d in digits[-1:]) if digits else True
    return bool(digits) and int(digits[-1]) == eff


def time_precision(dialect: int, kind: int, p: int) -> bool:
    """the column type of a datetime / time / timedelta attribute keeps exactly the fractional digits the converter keeps

    pre: 0 <= dialect < 4 and 0 <= kind <= 2 and -1 <= p <= 6
    pre: dialect != 3 or kind == 0
    post: _
    """
    pname = DIALECTS[conc(dialect, 4)]
    kind, p = conc(kind, 3), conc(p + 1, 8) - 1
    with NoTracing():
        return ok(_time_type(pname, kind, p))


def _name_of(n, first):
    return first + ''.join('abcdefghij'[i % 10] for i in range(n - 1))


def _real_limits(pname, delta, what):
    """the shipped providers with their REAL max_name_len: names of length limit-1, limit, limit+1 for an entity, an
    attribute (-> column, index and foreign key names) or an m2m pair; nothing generated may exceed the documented limit"""
    L = DOC_LIMIT[pname]
    prov = provider(pname, None)
    if L is None: return prov.max_name_len >= 64           # SQLite: no limit of its own; at least the others' largest
    if prov.max_name_len != L: return False
    n = L + delta
    long_name = _name_of(n, 'E')
    if len(prov.normalize_name(long_name)) > L: return False
    db = mock_db(pname, None)
    if what == 0:          # long entity name: table name, foreign key and index names built from it
        ent_name, body = long_name, ['par = Required("Par", reverse="kids")']
    elif what == 1:        # long attribute name: column name and index name
        ent_name, body = 'Ent', ['%s = Required(int, index=True)' % _name_of(n, 'v'), 'par = Optional("Par", reverse="kids")']
    else:                  # idx_<table>__<column> / fk_<table>__<column> around the limit, table name below it
        ent_name, body = _name_of(n - 9, 'E'), ['par = Required("Par", reverse="kids")']
    try:
        define(db, 'Par', ['kids = Set("%s", reverse="par")' % ent_name])
        define(db, ent_name, body)
        db.generate_mapping(check_tables=False, create_tables=False)
    except REJECTED:
        return False                                   # nothing in these declarations collides
    return _check_schema(db, pname, None, None)


def real_limits(dialect: int, delta: int, what: int) -> bool:
    """
    pre: 0 <= dialect < 4 and -1 <= delta <= 1 and 0 <= what <= 2
    post: _
    """
    pname = DIALECTS[conc(dialect, 4)]
    delta, what = conc(delta + 1, 3) - 1, conc(what, 3)
    with NoTracing():
        return ok(_real_limits(pname, delta, what))


ATTR_NAMES = ('v', 'value_one', 'value_one_b', 'Value_one_c')     # the last three share their first 9 characters (case apart)


def _mapping_attr(pname, n1, n2, kind1, kind2, opt1, is_str, composite):
    """one entity, two data attributes whose default column names may collide after truncation / case folding, with
    unique / index / composite key / composite index declarations"""
    db = mock_db(pname, LIMIT_M)
    kw = ('', ', unique=True', ', index=True')
    body = ['%s = %s(%s%s)' % (ATTR_NAMES[n1], 'Optional' if opt1 else 'Required', 'str' if is_str else 'int', kw[kind1])]
    if n2 != n1:
        body.append('%s = Required(int%s)' % (ATTR_NAMES[n2], kw[kind2]))
        if composite == 1: body.append('composite_key(%s, %s)' % (ATTR_NAMES[n1], ATTR_NAMES[n2]))
        elif composite == 2: body.append('composite_index(%s, %s)' % (ATTR_NAMES[n2], ATTR_NAMES[n1]))
    try:
        define(db, 'Ent', body)
        db.generate_mapping(check_tables=False, create_tables=False)
    except REJECTED:
        # a collision of two generated names is the only reason these declarations can be refused
        prov = db.provider
        ixn = _index_names(prov, n1, n2, kind1, kind2, composite)
        return n2 != n1 and (prov.normalize_name(ATTR_NAMES[n1]) == prov.normalize_name(ATTR_NAMES[n2]) or not all_distinct(ixn))
    return _check_schema(db, pname, LIMIT_M, 1 + (1 if n2 == n1 else 2))


def _index_names(prov, n1, n2, kind1, kind2, composite):
    t = prov.normalize_name('Ent')
    c1, c2 = prov.normalize_name(ATTR_NAMES[n1]), prov.normalize_name(ATTR_NAMES[n2])
    out = []
    if kind1: out.append(prov.get_default_index_name(t, (c1,), is_unique=(kind1 == 1)))
    if kind2: out.append(prov.get_default_index_name(t, (c2,), is_unique=(kind2 == 1)))
    if composite == 1: out.append(prov.get_default_index_name(t, (c1, c2), is_unique=True))
    if composite == 2: out.append(prov.get_default_index_name(t, (c2, c1), is_unique=False))
    return out


def _mapping_attr_h(pname, n1, n2, kind1, kind2, a1, composite):
    n1, n2, kind1, kind2, composite, a1 = conc(n1, 4), conc(n2, 4), conc(kind1, 3), conc(kind2, 3), conc(composite, 3), conc(a1, 3)
    with NoTracing():
        return ok(_mapping_attr(pname, n1, n2, kind1, kind2, a1 != 0, a1 == 2, composite))


def mapping_attr_sqlite(n1: int, n2: int, kind1: int, kind2: int, a1: int, composite: int) -> bool:
    """
    pre: 0 <= n1 <= 3 and 0 <= n2 <= 3 and 0 <= kind1 <= 2 and 0 <= kind2 <= 2 and 0 <= composite <= 2 and 0 <= a1 <= 2
    post: _
    """
    return _mapping_attr_h('sqlite', n1, n2, kind1, kind2, a1, composite)


def mapping_attr_postgres(n1: int, n2: int, kind1: int, kind2: int, a1: int, composite: int) -> bool:
    """
    pre: 0 <= n1 <= 3 and 0 <= n2 <= 3 and 0 <= kind1 <= 2 and 0 <= kind2 <= 2 and 0 <= composite <= 2 and 0 <= a1 <= 2
    post: _
    """
    return _mapping_attr_h('postgres', n1, n2, kind1, kind2, a1, composite)


def mapping_attr_mysql(n1: int, n2: int, kind1: int, kind2: int, a1: int, composite: int) -> bool:
    """
    pre: 0 <= n1 <= 3 and 0 <= n2 <= 3 and 0 <= kind1 <= 2 and 0 <= kind2 <= 2 and 0 <= composite <= 2 and 0 <= a1 <= 2
    post: _
    """
    return _mapping_attr_h('mysql', n1, n2, kind1, kind2, a1, composite)


def mapping_attr_oracle(n1: int, n2: int, kind1: int, kind2: int, a1: int, composite: int) -> bool:
    """
    pre: 0 <= n1 <= 3 and 0 <= n2 <= 3 and 0 <= kind1 <= 2 and 0 <= kind2 <= 2 and 0 <= composite <= 2 and 0 <= a1 <= 2
    post: _
    """
    return _mapping_attr_h('oracle', n1, n2, kind1, kind2, a1, composite)


def _oracle_objects(n1, n2, own, auto2, lim, check_len):
    if n1 == n2: return True
    prov = provider('oracle', lim)
    schema = prov.dbschema_cls(prov)
    class A(object): kwargs = {}
    conv = Conv(int, prov); conv.attr = A()
    objs, created = [], set()
    for n, auto in ((n1, True), (n2, auto2)):
        t = schema.add_table(n if own is None else (own, n))
        c = t.add_column('id', 'NUMBER(10)', conv, True)
        t.add_index(None, (c,), is_pk='auto' if auto else True)
    for t in schema.order_tables_to_create(): objs.extend(t.get_objects_to_create(created))
    names = [o.name for o in objs]
    if len(objs) != 2 + 2 * (2 if auto2 else 1): return False
    if not all_distinct(names): return False
    for o in objs:
        if check_len and len(prov.base_name(o.name)) > lim: return False
        if not isinstance(o.get_create_command(), str): return False
    return True


def oracle_auto_pk_names(t1: int, t2: int, auto2: bool, limit: int) -> bool:
    """
    pre: 0 <= t1 < NP and 0 <= t2 < NP and 0 <= limit <= 1
    post: _
    """
    # Oracle: an auto primary key adds a sequence and a trigger per table (OraTable.get_objects_to_create); all created
    # objects need pairwise different names within the limit (table names here are within it)
    n1, n2, auto2 = POOL[conc(t1, NP)], POOL[conc(t2, NP)], cbool(auto2)
    lim = 5 if limit == 0 else 30
    with NoTracing():
        return ok(_oracle_objects(n1, n2, None, auto2, lim, True))


def oracle_auto_pk_names_owner(t1: int, t2: int, owner: int, auto2: bool) -> bool:
    """
    pre: 0 <= t1 < NP and 0 <= t2 < NP and 0 <= owner <= 1
    post: _
    """
    # same with owner-qualified table names ('owner', 'table'): names must still differ per table
    n1, n2, auto2 = POOL[conc(t1, NP)], POOL[conc(t2, NP)], cbool(auto2)
    own = 'o' if owner == 0 else 'own'
    with NoTracing():
        return ok(_oracle_objects(n1, n2, own, auto2, 30, False))
