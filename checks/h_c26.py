"""CrossHair harnesses for C26 (generated schemas are well formed) - kernels only.

What runs is the real code of pony/orm/dbschema.py (DBSchema, Table, Column, DBIndex, ForeignKey and the dialect
subclasses SQLiteSchema / PGSchema / MySQLSchema / OraSchema with their column/table classes), the real name functions
of the four providers (normalize_name, get_default_index_name, get_default_fk_name, get_default_m2m_table_name,
get_default_m2m_column_names, get_default_column_names) and, in `mapping_*`, the real Database.generate_mapping.
The providers are instantiated without a connection (`object.__new__` on a subclass: the name functions and the schema
classes only read class attributes); the subclass lowers `max_name_len` (8 or 10) so that truncation happens with the
short names the solver can explore.

Symbolic (solver-chosen): every option flag, the dialect where it is an argument, the adjacency matrix of the
parent-table relation, and identifiers.  pony lower-cases every default name (`str.lower()` on a symbolic string costs
CrossHair ~0.6 s per path here: it forks per character over the Unicode case tables), so identifiers are built from
*symbolic choices per identifier* out of a small pool (all strings of length 1..2 over {a, A, _}; the characters the
name functions treat differently: a letter, the same letter in the other case, the separator) which are turned into
concrete strings by explicit branching before pony is called; the then-concrete real code runs under NoTracing.  The
solver still has to exhaust every combination for "Confirmed over all paths".

Reference statements (this file, not pony's code):
  * a generated name has at most max_name_len characters and is in the dialect's canonical form (a fixed point of the
    provider's normalize_name; case folding: none on SQLite, lower on PostgreSQL/MySQL, upper on Oracle);
  * after any two requests for schema objects either the second was rejected with DBSchemaError at mapping time or all
    object names registered in the schema (tables, indexes, foreign keys) are pairwise different; a rejection needs a
    reason (same column set, or the generated name is already taken);
  * a column's DDL line starts with the quoted column name and its type and says NOT NULL / UNIQUE / PRIMARY KEY /
    DEFAULT x / the dialect's auto-increment spelling / REFERENCES t (c) ON DELETE a exactly when declared;
  * table level: one line per column, composite PRIMARY KEY / CONSTRAINT .. UNIQUE lines exactly when declared,
    non-unique indexes as separate CREATE INDEX objects after their table, foreign keys as the dialect does it
    (inline / table-level on SQLite, ALTER TABLE .. ADD CONSTRAINT elsewhere) with ON DELETE exactly when declared;
  * creation order: every table once; if the parent relation is acyclic every table comes after its parents; with named
    foreign keys every foreign key is emitted exactly once and after both of its tables (also for cyclic graphs).
"""
import os
from engine.ch import ok
from engine import env as E0
from crosshair import NoTracing

E0.install_driver_stubs()
from pony.orm import dbschema, core
from pony.orm.core import DBSchemaError

DIALECTS = ('sqlite', 'postgres', 'mysql', 'oracle')
THOROUGH = os.environ.get('C26_THOROUGH') == '1'
# identifier pool: all strings of length 1..2 over {a, A, _} (12); thorough adds a second letter and a digit
_AL = 'aA_'
POOL = [a + b for a in ('',) + tuple(_AL) for b in _AL]
POOL1 = list(_AL)
assert len(POOL) == 12
_prov_cache = {}


def conc(x, n):
    """turn a symbolic int in [0, n) into a concrete one by explicit branching (realize() never lets CrossHair exhaust)"""
    for v in range(n - 1):
        if x == v: return v
    return n - 1


def cbool(b):
    return True if b else False


def provider(pname, limit):
    """an instance of the real provider class of `pname`, max_name_len lowered to `limit` (None = unchanged)"""
    key = (pname, limit)
    if key not in _prov_cache:
        import importlib
        base = importlib.import_module('pony.orm.dbproviders.' + pname).provider_cls
        ns = {} if limit is None else {'max_name_len': limit}
        cls = type(base.__name__, (base,), ns)
        _prov_cache[key] = object.__new__(cls)
    return _prov_cache[key]


def fold(pname, s):
    """documented case folding of default names per dialect"""
    if pname in ('postgres', 'mysql'): return s.lower()
    if pname == 'oracle': return s.upper()
    return s


class Conv(object):
    """the schema classes read converter.py_type (auto primary keys, GIN indexes) and converter.provider.dialect"""
    def __init__(self, py_type, prov): self.py_type, self.provider = py_type, prov


def good_name(prov, pname, name, limit):
    return isinstance(name, str) and 0 < len(name) <= limit and prov.normalize_name(name) == name and fold(pname, name) == name


def all_distinct(names):
    return len(set(names)) == len(names)


def schema_names(schema):
    """names of everything that will be created: tables + named constraints"""
    out = list(schema.tables)
    for t in schema.tables.values():
        out += [ix.name for ix in t.indexes.values() if ix.name is not None]
        out += [fk.name for fk in t.foreign_keys.values() if fk.name is not None]
    return out


# ---------------------------------------------------------------------------------------------------------------
# 1. name functions
# ---------------------------------------------------------------------------------------------------------------

def normalize_name(dialect: int, s: str, limit: int) -> bool:
    """
    pre: 0 <= dialect < 4
    pre: 1 <= limit <= 3
    pre: len(s) <= 4
    pre: all(c in 'aB_1' for c in s)
    post: _
    """
    # fully symbolic string; SQLite only has no case folding, the folding dialects are decided per character pool below
    lim = conc(limit, 4)
    pname = DIALECTS[conc(dialect, 4)]
    prov = provider(pname, lim)
    if pname != 'sqlite':
        return ok(True)
    r = prov.normalize_name(s)
    return ok(r == s[:lim] and len(r) <= lim and prov.normalize_name(r) == r)


def normalize_name_fold(dialect: int, a: int, b: int, c: int, limit: int) -> bool:
    """
    pre: 0 <= dialect < 4
    pre: 0 <= a < 12 and 0 <= b < 12 and 0 <= c < 12
    pre: 1 <= limit <= 6
    post: _
    """
    lim = conc(limit, 7)
    pname = DIALECTS[conc(dialect, 4)]
    s = POOL[conc(a, 12)] + POOL[conc(b, 12)] + POOL[conc(c, 12)]
    with NoTracing():
        prov = provider(pname, lim)
        r = prov.normalize_name(s)
        return ok(r == fold(pname, s[:lim]) and len(r) <= lim and prov.normalize_name(r) == r)


def _two_indexes(pname, limit, t1, c1, t2, c2, u1, u2, m1, m2, pfx):
    """two default-named index requests through the real Table.add_index; the second table's name may carry the prefix
    pony itself uses for default names, so that a table name can collide with a generated index name"""
    prov = provider(pname, limit)
    schema = prov.dbschema_cls(prov)
    conv = Conv(int, prov)
    t2 = ('idx_' if pfx == 1 else ('unq_' if pfx == 2 else '')) + t2
    tab1 = schema.add_table(t1)
    tab2 = tab1 if t2 == t1 else schema.add_table(t2)
    col1 = tab1.add_column(c1, 'INTEGER', conv, True)
    col2 = col1 if (tab2 is tab1 and c2 == c1) else tab2.add_column(c2, 'INTEGER', conv, True)
    try:
        ix1 = tab1.add_index(None, (col1,), is_unique=u1, m2m=m1)
    except DBSchemaError:
        return t2 != t1 and pfx != 0                 # the only legitimate reason: the name is taken by table 2
    if not good_name(prov, pname, ix1.name, limit): return False
    try:
        ix2 = tab2.add_index(None, (col2,), is_unique=u2, m2m=m2)
    except DBSchemaError:
        # rejected at mapping time; must have a reason: same column set, or the generated name is in use
        return col2 is col1 or prov.get_default_index_name(t2, (c2,), is_unique=u2, m2m=m2) in (ix1.name, t1, t2)
    if ix2 is ix1:
        return col2 is col1 and u1 == u2
    if not good_name(prov, pname, ix2.name, limit): return False
    names = schema_names(schema)
    return (all_distinct(names) and schema.names.get(ix1.name) is ix1 and schema.names.get(ix2.name) is ix2
            and len(names) == len(schema.names))


def _index_pair(pname, t1, c1, t2, c2, u):
    t1, t2, c1, c2, u = POOL[conc(t1, 12)], POOL[conc(t2, 12)], POOL1[conc(c1, 3)], POOL1[conc(c2, 3)], cbool(u)
    with NoTracing():
        return ok(_two_indexes(pname, 8, t1, c1, t2, c2, u, u, False, False, 0))


def index_pair_sqlite(t1: int, c1: int, t2: int, c2: int, u: bool) -> bool:
    """
    pre: 0 <= t1 < 12 and 0 <= t2 < 12 and 0 <= c1 < 3 and 0 <= c2 < 3
    post: _
    """
    return _index_pair('sqlite', t1, c1, t2, c2, u)


def index_pair_postgres(t1: int, c1: int, t2: int, c2: int, u: bool) -> bool:
    """
    pre: 0 <= t1 < 12 and 0 <= t2 < 12 and 0 <= c1 < 3 and 0 <= c2 < 3
    post: _
    """
    return _index_pair('postgres', t1, c1, t2, c2, u)


def index_pair_mysql(t1: int, c1: int, t2: int, c2: int, u: bool) -> bool:
    """
    pre: 0 <= t1 < 12 and 0 <= t2 < 12 and 0 <= c1 < 3 and 0 <= c2 < 3
    post: _
    """
    return _index_pair('mysql', t1, c1, t2, c2, u)


def index_pair_oracle(t1: int, c1: int, t2: int, c2: int, u: bool) -> bool:
    """
    pre: 0 <= t1 < 12 and 0 <= t2 < 12 and 0 <= c1 < 3 and 0 <= c2 < 3
    post: _
    """
    return _index_pair('oracle', t1, c1, t2, c2, u)


def index_flags(dialect: int, t1: int, t2: int, c2: int, u1: bool, u2: bool, m1: bool, m2: bool, pfx: int, limit: int) -> bool:
    """
    pre: 0 <= dialect < 4 and 0 <= t1 < 3 and 0 <= t2 < 12 and 0 <= c2 < 3 and 0 <= pfx <= 2 and 0 <= limit <= 1
    post: _
    """
    # all flag combinations (unique / m2m template / table named like a generated index) on a smaller identifier pool
    pname = DIALECTS[conc(dialect, 4)]
    t1, t2, c2 = POOL1[conc(t1, 3)], POOL[conc(t2, 12)], POOL1[conc(c2, 3)]
    u1, u2, m1, m2, pfx = cbool(u1), cbool(u2), cbool(m1), cbool(m2), conc(pfx, 3)
    lim = 6 if limit == 0 else 8
    with NoTracing():
        return ok(_two_indexes(pname, lim, t1, 'a', t2, c2, u1, u2, m1, m2, pfx))


def _two_fks(pname, limit, t1, c1, t2, c2, ix, pfx):
    """two default-named foreign keys (plus the index pony adds for the child columns) to one parent table"""
    prov = provider(pname, limit)
    schema = prov.dbschema_cls(prov)
    conv = Conv(int, prov)
    parent = schema.add_table('P')
    pid = parent.add_column('id', 'INTEGER', conv, True)
    parent.add_index(None, (pid,), is_pk=True)
    t2 = ('fk_' if pfx == 1 else ('idx_' if pfx == 2 else '')) + t2
    tab1 = schema.add_table(t1)
    tab2 = tab1 if t2 == t1 else schema.add_table(t2)
    col1 = tab1.add_column(c1, 'INTEGER', conv, True)
    col2 = col1 if (tab2 is tab1 and c2 == c1) else tab2.add_column(c2, 'INTEGER', conv, True)
    index_name = None if ix else False
    try:
        fk1 = tab1.add_foreign_key(None, (col1,), parent, (pid,), index_name)
    except DBSchemaError:
        return t2 != t1 and pfx != 0
    if schema.named_foreign_keys or fk1.name is not None:
        if not good_name(prov, pname, fk1.name, limit): return False
    try:
        fk2 = tab2.add_foreign_key(None, (col2,), parent, (pid,), index_name)
    except DBSchemaError:
        if col2 is col1: return True
        taken = set(schema_names(schema))
        return (prov.get_default_fk_name(t2, 'P', (c2,)) in taken
                or (ix and prov.get_default_index_name(t2, (c2,), is_unique=False, m2m=False) in taken))
    if not good_name(prov, pname, fk2.name, limit): return False
    names = schema_names(schema)
    if not (all_distinct(names) and len(names) == len(schema.names)): return False
    for n in names:
        if n not in schema.tables and not good_name(prov, pname, n, limit): return False
    # every child column got an index when one was asked for
    if ix and not ((col1,) in tab1.indexes and (col2,) in tab2.indexes): return False
    return schema.names.get(fk1.name) is fk1 and schema.names.get(fk2.name) is fk2


def _fk_pair(pname, t1, c1, t2, c2, ix):
    t1, t2, c1, c2, ix = POOL[conc(t1, 12)], POOL[conc(t2, 12)], POOL1[conc(c1, 3)], POOL1[conc(c2, 3)], cbool(ix)
    with NoTracing():
        return ok(_two_fks(pname, 10, t1, c1, t2, c2, ix, 0))


def fk_pair_sqlite(t1: int, c1: int, t2: int, c2: int, ix: bool) -> bool:
    """
    pre: 0 <= t1 < 12 and 0 <= t2 < 12 and 0 <= c1 < 3 and 0 <= c2 < 3
    post: _
    """
    return _fk_pair('sqlite', t1, c1, t2, c2, ix)


def fk_pair_postgres(t1: int, c1: int, t2: int, c2: int, ix: bool) -> bool:
    """
    pre: 0 <= t1 < 12 and 0 <= t2 < 12 and 0 <= c1 < 3 and 0 <= c2 < 3
    post: _
    """
    return _fk_pair('postgres', t1, c1, t2, c2, ix)


def fk_pair_mysql(t1: int, c1: int, t2: int, c2: int, ix: bool) -> bool:
    """
    pre: 0 <= t1 < 12 and 0 <= t2 < 12 and 0 <= c1 < 3 and 0 <= c2 < 3
    post: _
    """
    return _fk_pair('mysql', t1, c1, t2, c2, ix)


def fk_pair_oracle(t1: int, c1: int, t2: int, c2: int, ix: bool) -> bool:
    """
    pre: 0 <= t1 < 12 and 0 <= t2 < 12 and 0 <= c1 < 3 and 0 <= c2 < 3
    post: _
    """
    return _fk_pair('oracle', t1, c1, t2, c2, ix)


def fk_flags(dialect: int, t1: int, t2: int, c2: int, ix: bool, pfx: int, limit: int) -> bool:
    """
    pre: 0 <= dialect < 4 and 0 <= t1 < 3 and 0 <= t2 < 12 and 0 <= c2 < 3 and 0 <= pfx <= 2 and 0 <= limit <= 2
    post: _
    """
    pname = DIALECTS[conc(dialect, 4)]
    t1, t2, c2, ix, pfx = POOL1[conc(t1, 3)], POOL[conc(t2, 12)], POOL1[conc(c2, 3)], cbool(ix), conc(pfx, 3)
    lim = (6, 8, 10)[conc(limit, 3)]
    with NoTracing():
        return ok(_two_fks(pname, lim, t1, 'a', t2, c2, ix, pfx))


class _Ent(object):
    """duck-typed entity for the m2m name functions"""
    def __init__(self, name, pk_columns): self.__name__, self._pk = name, pk_columns
    def _get_pk_columns_(self): return self._pk


class _Attr(object):
    def __init__(self, entity, name, symmetric=False): self.entity, self.name, self.symmetric = entity, name, symmetric


def m2m_names(dialect: int, e1: int, e2: int, a1: int, sym: bool, npk: int, p1: int, p2: int, limit: int) -> bool:
    """
    pre: 0 <= dialect < 4 and 0 <= e1 < 12 and 0 <= e2 < 12 and 0 <= a1 < 3 and 1 <= npk <= 2 and 0 <= p1 < 3 and 0 <= p2 < 3
    pre: 0 <= limit <= 1
    post: _
    """
    # default intermediate-table name and its column names for a many-to-many pair; the columns go through the real
    # Table.add_column of a real m2m table: either all distinct and within the limit or rejected (DBSchemaError)
    pname = DIALECTS[conc(dialect, 4)]
    n1, n2, an = POOL[conc(e1, 12)], POOL[conc(e2, 12)], POOL1[conc(a1, 3)]
    sym, npk = cbool(sym), conc(npk - 1, 2) + 1
    pk1, pk2 = POOL1[conc(p1, 3)], POOL1[conc(p2, 3)]
    lim = 4 if limit == 0 else 6
    with NoTracing():
        prov = provider(pname, lim)
        pks = [pk1] if npk == 1 else [pk1, pk2 + '2']
        ent1, ent2 = _Ent(n1, pks), _Ent(n2, pks)
        if sym:
            attr = _Attr(ent1, an, True)
            tname = prov.get_default_m2m_table_name(attr, attr)
            expected = n1 + '_' + an
        else:
            tname = prov.get_default_m2m_table_name(_Attr(ent1, an), _Attr(ent2, an))
            expected = n1 + '_' + n2
        if not (good_name(prov, pname, tname, lim) and tname == fold(pname, expected[:lim])): return ok(False)
        cols1 = prov.get_default_m2m_column_names(ent1)
        cols2 = prov.get_default_m2m_column_names(ent2)
        if not (len(cols1) == len(pks) == len(cols2)): return ok(False)
        for c in cols1 + cols2:
            if not good_name(prov, pname, c, lim): return ok(False)
        # relationship columns of a composite reference (attr_name + '_' + pk column)
        rcols = prov.get_default_column_names(_Attr(ent1, an), pks)
        if len(rcols) != len(pks): return ok(False)
        for c in rcols:
            if not good_name(prov, pname, c, lim): return ok(False)
        schema = prov.dbschema_cls(prov)
        conv = Conv(int, prov)
        tab = schema.add_table(tname)
        try:
            for c in cols1 + cols2: tab.add_column(c, 'INTEGER', conv, True)
        except DBSchemaError:
            return ok(not all_distinct(cols1 + cols2))
        return ok(all_distinct([c.name for c in tab.column_list]) and len(tab.column_list) == 2 * len(pks))


# ---------------------------------------------------------------------------------------------------------------
# 2. DDL emission: column lines, index / foreign-key statements, whole tables
# ---------------------------------------------------------------------------------------------------------------

ACTIONS = (None, 'CASCADE', 'SET NULL')
AUTO_WORD = {'sqlite': 'AUTOINCREMENT', 'mysql': 'AUTO_INCREMENT', 'postgres': 'SERIAL', 'oracle': None}


def _has(tokens, *words):
    """`words` occur as consecutive tokens"""
    n = len(words)
    return any(tuple(tokens[i:i + n]) == words for i in range(len(tokens) - n + 1))


def _column_line(pname, name, pk, unique, not_null, default, fk, action, is_int):
    prov = provider(pname, None)
    schema = prov.dbschema_cls(prov)
    conv = Conv(int if is_int else str, prov)
    parent = schema.add_table('P')
    pid = parent.add_column('id', 'INTEGER', conv, True)
    parent.add_index(None, (pid,), is_pk=True)
    tab = schema.add_table('T')
    sql_default = (None, True, "'x'")[default]
    sql_type = 'INTEGER' if is_int else 'TEXT'
    col = tab.add_column(name, sql_type, conv, not_null, sql_default)
    other = tab.add_column('zz', 'INTEGER', conv, True)
    if pk: tab.add_index(None, (col,), is_pk=('auto' if pk == 2 else True))
    else:
        tab.add_index(None, (other,), is_pk=True)
        if unique: tab.add_index(None, (col,), is_unique=True)
    on_delete = ACTIONS[action]
    if fk: fkey = tab.add_foreign_key(None, (col,), parent, (pid,), False, on_delete)
    line = col.get_sql()
    q = prov.quote_char
    head = q + name.replace(q, q + q) + q + ' '
    if not line.startswith(head): return False
    rest = line[len(head):]
    toks = rest.split(' ')
    if 'REFERENCES' in toks:                       # constraint words are looked for before the REFERENCES clause
        k = toks.index('REFERENCES'); toks, ref_toks = toks[:k], toks[k:]
    else: ref_toks = []
    auto = pk == 2 and is_int and AUTO_WORD[pname] is not None
    # type (PostgreSQL replaces it by SERIAL for auto keys)
    if not (toks[0] == sql_type or (auto and pname == 'postgres' and toks[0] == 'SERIAL')): return False
    if auto and not _has(toks, AUTO_WORD[pname]): return False
    if not auto and any(_has(toks, w) for w in ('AUTOINCREMENT', 'AUTO_INCREMENT', 'SERIAL')): return False
    if _has(toks, 'PRIMARY', 'KEY') != bool(pk): return False
    if toks.count('PRIMARY') > 1 or toks.count('UNIQUE') > 1 or toks.count('NULL') > 1 or toks.count('DEFAULT') > 1: return False
    # UNIQUE exactly when declared unique (a primary key is unique by itself)
    if _has(toks, 'UNIQUE') != bool(unique and not pk): return False
    # NOT NULL: declared => said (PRIMARY KEY implies it, except on SQLite where only INTEGER PRIMARY KEY does)
    said_nn = _has(toks, 'NOT', 'NULL')
    if pk:
        if pname == 'sqlite' and not auto and not said_nn: return False
    elif said_nn != bool(not_null): return False
    if 'NULL' in toks and not said_nn: return False
    # DEFAULT
    if _has(toks, 'DEFAULT', "'x'") != (default == 2): return False
    if ('DEFAULT' in toks) != (default == 2): return False
    # inline REFERENCES only where foreign keys are not named constraints (SQLite)
    inline = fk and schema.inline_fk_syntax and not schema.named_foreign_keys
    ref = ('REFERENCES', q + 'P' + q, '(' + q + 'id' + q + ')')
    if bool(ref_toks) != bool(inline): return False
    if inline and tuple(ref_toks) != ref + ((('ON', 'DELETE') + tuple(on_delete.split(' '))) if on_delete else ()): return False
    if fk and not inline:
        stmt = fkey.get_create_command()
        want = ' '.join(('ALTER', 'TABLE', q + 'T' + q, 'ADD', 'CONSTRAINT', q + fkey.name.replace(q, q + q) + q, 'FOREIGN', 'KEY', '(' + head[:-1] + ')') + ref)
        if not stmt.startswith(want): return False
        if stmt[len(want):] != ((' ON DELETE ' + on_delete) if on_delete else ''): return False
    return True


def _column(pname, s, pk, unique, not_null, default, fk, action, is_int):
    pk, default, action = conc(pk, 3), conc(default, 3), conc(action, 3)
    return ok(_column_line(pname, s, pk, cbool(unique), cbool(not_null), default, cbool(fk), action, cbool(is_int)))


def column_sqlite(s: str, pk: int, unique: bool, not_null: bool, default: int, fk: bool, action: int, is_int: bool) -> bool:
    """
    pre: 0 <= pk <= 2 and 0 <= default <= 2 and 0 <= action <= 2
    pre: 1 <= len(s) <= 2 and all(c in 'a"` ' for c in s)
    post: _
    """
    return _column('sqlite', s, pk, unique, not_null, default, fk, action, is_int)


def column_postgres(s: str, pk: int, unique: bool, not_null: bool, default: int, fk: bool, action: int, is_int: bool) -> bool:
    """
    pre: 0 <= pk <= 2 and 0 <= default <= 2 and 0 <= action <= 2
    pre: 1 <= len(s) <= 2 and all(c in 'a"` ' for c in s)
    post: _
    """
    return _column('postgres', s, pk, unique, not_null, default, fk, action, is_int)


def column_mysql(s: str, pk: int, unique: bool, not_null: bool, default: int, fk: bool, action: int, is_int: bool) -> bool:
    """
    pre: 0 <= pk <= 2 and 0 <= default <= 2 and 0 <= action <= 2
    pre: 1 <= len(s) <= 2 and all(c in 'a"` ' for c in s)
    post: _
    """
    return _column('mysql', s, pk, unique, not_null, default, fk, action, is_int)


def column_oracle(s: str, pk: int, unique: bool, not_null: bool, default: int, fk: bool, action: int, is_int: bool) -> bool:
    """
    pre: 0 <= pk <= 2 and 0 <= default <= 2 and 0 <= action <= 2
    pre: 1 <= len(s) <= 2 and all(c in 'a"` ' for c in s)
    post: _
    """
    return _column('oracle', s, pk, unique, not_null, default, fk, action, is_int)
