"""C13 - a modification that raises leaves the session exactly as it was.

CrossHair harnesses (checks/h_c13.py) over a fixed list of ~100 modification calls (create / assign / set() / one-to-one
reassignment / collection add, remove, assignment / delete and cascades of depth 2 / mixed-session objects and validation
errors) on a real in-memory SQLite session.  Symbolic: the scenario of the family, the FAULT INDEX k (ConstraintError raised
instead of the k-th internal step - update_simple_index, update_composite_index, update_reverse, reverse_add, reverse_remove,
_delete_, nested Attribute.__set__/Set.__set__; k = 0: no injected fault) and the history of the session before the call
(objects loaded / created / created and flushed; unrelated pending changes; everything pre-read or lazy).  Each explored path
is one concrete run of the real code at a solver-chosen point (fault_enumeration level).  After an exception: deep snapshot
before == after, equal to a reference session without the call, commit() equal to the reference database.

Several defect classes may live in one harness.  A counterexample is classified (stable key, see h_c13.KEYS); the harness is
then re-run with the paths of the classes already reported treated as passing (environment C13_TOLERATE, like the "add the
negated region and re-check" of the z3 checks), until it confirms or shows a class not reported yet.  Every class is its own
CEX obligation (known finding or violation); the last round is reported under "<harness> [other paths]".
"""
import os
from engine.core import Report, CEX, HOLDS
from engine import ch

MAX_ROUNDS = 7


def classify(spec, cex):
    """Stable key of the defect class (decided from an untraced re-run of the counterexample path)."""
    from checks import h_c13 as h
    try:
        h.setup()
        holds, key, why, info = h.explain(spec['fn'], cex.get('s', 0), cex.get('k', 0), cex.get('mode', 0), cex.get('order', False), cex.get('follow', 0))
    except Exception:
        return None
    return None if holds else key


def _describe(spec, cex):
    from checks import h_c13 as h
    try:
        holds, key, why, info = h.explain(spec['fn'], cex.get('s', 0), cex.get('k', 0), cex.get('mode', 0), cex.get('order', False), cex.get('follow', 0))
        modes = h.modes_of(spec['fn'])
        o, hi, p = modes[min(max(cex.get('mode', 0), 0), len(modes) - 1)]
        return ('%s; %s; raised %s; objects %s, history %s, %s | %s' % (
            info['scenario'], ('fault injected at step %d (%s)' % (cex.get('k', 0), info['injected'])) if info['injected'] else 'no injected fault',
            info['raised'], ('loaded from the database', 'created in this session', 'created and flushed in this session')[o],
            ('none', 'pending unrelated changes', 'unrelated changes flushed')[hi], 'everything pre-read' if p else 'lazy',
            ' ; '.join(why[:8])))[:1800]
    except Exception as e:
        return 'explain failed: %r' % (e,)


def run(tier, seed, only=None):
    from pony.orm import core
    if tier == 'thorough':                      # read by checks/h_c13.py in the worker and helper processes
        os.environ['C13_ALL_MODES'] = '1'
        os.environ['C13_FOLLOW'] = '1'
    os.environ.pop('C13_TOLERATE', None)
    from checks import h_c13 as h
    rep = Report('C13', 'fault_enumeration',
                 'CrossHair explores (scenario, fault index k, session history) for a fixed list of %d modification calls on a real '
                 'in-memory SQLite session; ConstraintError is raised instead of the k-th internal step the undo closures must cover '
                 '(k = 0: the call fails by itself); each path is one concrete run of the real code. After any exception the deep '
                 'session snapshot equals the one before the call and the one of a reference session without the call, and commit() '
                 'leaves the reference database. Only "Confirmed over all paths" counts.' % len(h.SCENARIOS))
    E, A, S, C = core.Entity, core.Attribute, core.Set, core.SessionCache
    fp = lambda f: getattr(f, '_c13_orig', f)
    rep.fn(E.__init__, E._get_from_identity_map_, E.set, E._keyargs_to_avdicts_, E.delete, fp(E.__dict__['_delete_']), fp(A.__dict__['__set__']),
           fp(A.__dict__['update_reverse']), A.validate, fp(S.__dict__['__set__']), fp(S.__dict__['reverse_add']), fp(S.__dict__['reverse_remove']), S.validate,
           core.SetInstance.add, core.SetInstance.remove, fp(C.__dict__['update_simple_index']), fp(C.__dict__['update_composite_index']), C.flush, C.commit)
    T = 150 if tier == 'quick' else 2400
    specs = [dict(module='checks.h_c13', fn=f, cond_timeout=T, path_timeout=T / 2, setup='setup') for f in h.HARNESSES]
    if only: specs = [s for s in specs if only in s['fn']]
    rep.programs = len(h.SCENARIOS)
    todo, found, rnd = specs, [], 0
    while todo and rnd < MAX_ROUNDS:
        rnd += 1
        if found:
            os.environ['C13_TOLERATE'] = ','.join(sorted(found))
            h.TOLERATE.clear(); h.TOLERATE.update(found)
        n0 = len(rep.obs)
        cur = [dict(s, name='checks.h_c13.%s%s' % (s['fn'], ' [other paths, round %d]' % rnd if rnd > 1 else '')) for s in todo]
        ch.run_harnesses(rep, cur, classify)
        nxt = []
        byname = {ob.name: ob for ob in rep.obs[n0:]}
        for s in cur:
            ob = byname.get(s['name'])
            if ob is None or ob.verdict != CEX: continue
            ob.detail = _describe(s, ob.cex or {}) + ' || ' + (ob.detail or '')[:300]
            if ob.key and ob.reproduced:
                if ob.key not in found: found.append(ob.key)
                nxt.append(next(x for x in todo if x['fn'] == s['fn']))
        todo = nxt
    os.environ.pop('C13_TOLERATE', None)
    h.TOLERATE.clear()
    rep.extra = {'harness_time_s': {ob.name: round(ob.time_s or 0, 1) for ob in rep.obs}, 'scenarios': len(h.SCENARIOS), 'families': {f: len(h.family(f)) for f in h.FAMILIES}, 'defect_classes_seen': found,
                 'fault_points': ['SessionCache.update_simple_index', 'SessionCache.update_composite_index', 'Attribute.update_reverse', 'Set.reverse_add',
                                  'Set.reverse_remove', 'Entity._delete_', 'Attribute.__set__ (nested)', 'Set.__set__ (nested)'], 'recheck_rounds': rnd}
    rep.bounds = {
        'scenarios': '%d fixed calls in 9 families on one object graph of 10 entity types (simple / composite / relation-composite keys, one-to-one '
                     'required, optional and cascade, one-to-many optional / required without cascade / cascade of depth 2, many-to-many); NOT solver-quantified' % len(h.SCENARIOS),
        'fault index': 'k in 0..(counted steps of the un-faulted call, measured in 10 runs, + %d); every path fails if it makes more counted steps than the bound' % h.MARGIN,
        'session history': '%s of the 18 combinations origin {loaded, created, created+flushed} x {no, pending, flushed unrelated changes} x {lazy, pre-read}' % ('all' if tier == 'thorough' else 'the 10 first'),
        'follow-up': 'thorough: one of %d later modifications after the failed call (also in the reference run)' % h.N_FOLLOW if tier == 'thorough' else 'none (thorough tier only)',
        'faults': 'one injected ConstraintError per call, raised at the entry of a counted step; faults inside database calls are C17/C19',
    }
    rep.assumptions = [
        'cache.modified is compared only by the modified_flag_* harnesses: alone it makes the next flush a no-op pass (query result cache cleared), nothing is written',
        'an object left in cache.objects that no index, attribute, collection or save queue refers to is not observable and ignored; SetData.added/removed None == empty',
        'with lazily loaded objects (preload=0) the failed call may load rows: same-run comparison is "nothing that was there changed, new key-index entries only for newly loaded objects"; the comparison with the reference session is exact',
        'the concrete session of each path runs in a plain helper interpreter (same module, same pony tree) because CrossHair slows down its own process ~4.5x even with tracing suspended; the decisions (scenario, k, history) are made under the tracer',
        'known classes are excluded path-wise in the re-check rounds by their symptom (h_c13.classify_path); a path showing two classes is counted under the first in h_c13.KEYS',
        'pony.orm.core.time stubbed to a constant',
    ]
    rep.trusted = ['crosshair-tool (enumeration of the decision tree)', 'sqlite3 (real engine, foreign keys on)', 'snapshot()/diff()/classify_path() and the delegating fault-point wrappers in checks/h_c13.py',
                   'the scenario list (histories outside it are not covered)']
    return rep
