"""CrossHair harnesses for C36 - a forked process never uses its parent's database connection (pool logic).

What runs: the real `Pool.connect` (pid check, `forked_connections`), `Pool._connect/release/drop`, `SQLitePool`
(whose constructor overrides the base one), `PGPool`, the base `Pool` under `MySQLProvider`, `OraPool.__init__/connect/
release/drop` (`forked_pools`), and above them whole real `db_session`s (`SessionCache.connect/close`, the providers'
`set_transaction_mode/commit/rollback/release/drop`) over the recording fake DB-API of engine/fakedb.py.

The fork is modelled inside one interpreter: `os.getpid` as seen by pony.orm.dbapiprovider and
pony.orm.dbproviders.oracle (their `os` module global is replaced by fakedb.OsShim; the process-wide os.getpid is not
touched) answers PARENT until the fork point and CHILD afterwards; every recorded DB-API call carries the pid
under which it was made and every connection the pid under which it was opened.  After the fork point the run IS
the child (it inherited all of the parent's Python state, exactly what fork() gives it); the parent's continued
life is represented by what must stay untouched: its connection.

Symbolic: the fork point f (0 = no fork), the shapes of the sessions around it (read-only / optimistic write /
immediate / serializable / ddl - a ddl session closes its connection, which is how the "idle, nothing pooled" state
arises), whether the second session's body raises, and (single_fault_*) the number of one failing DB-API call.
Two families:
  fork_at_getpid_<pool>   - the design's model: the pid changes at the f-th call of getpid().  pony asks for the pid
                            at the start of every Pool.connect, so this covers a fork at every session boundary,
                            with the parent idle (nothing pooled) or holding a pooled connection.
  fork_mid_session_<pool> - the pid changes right before DB-API call number f, wherever that is, i.e. also while a
                            session is open on the parent's connection ("open transaction" in the property text) or
                            while SQLitePool._connect is still initialising the new connection.  The child then IS
                            inside that session (it inherited the session cache holding the parent's connection).
                            What that inherited session does until it ends is the KNOWN REGION (pony has no pid check
                            outside Pool.connect); this family asserts F1-F4 for everything else: the sessions the
                            child starts afterwards, retention, the pool's pid.
  fork_inherited_session_<pool> - the same scenarios with F1 asserted strictly, inherited session included
                            (counterexamples are classified `fork-inside-open-session-...` in checks/c36.py).
  single_fault_<pool>     - fork at the f-th getpid() call combined with one failing DB-API call (symbolic position).
Every family also has a symbolic `d`: 0 = never, i = `db.disconnect()` is called after session i (i = 4: after the
final session) by whichever process is running then; F1/F2 cover its calls (Pool.disconnect must close only the
caller's own connection and must keep `forked_connections`).
  fork_then_disconnect_first_<pool> - second KNOWN REGION asserted strictly: a disconnect() made by the child before
                            the child ever connected (fork while idle or inside a session, no child session yet).
                            `Pool.disconnect` has no pid check, `pool.con` is still the parent's object and is closed
                            (classified `child-disconnect-before-first-connect-...` in checks/c36.py).  The other
                            families exclude exactly the calls of such a disconnect step.
The symbolic numbers are handled as in C19 (fakedb.untraced: pony never sees them; the one comparison per call is
made under CrossHair's tracer, which forks the path there).

Reference statement (function `_check`):
  F1 no DB-API call made under the CHILD pid is on a connection opened under the PARENT pid: no cursor, execute,
     commit, rollback or close (Oracle: nor acquire/release/drop on a session pool the parent created);
  F2 once the child has connected, every parent connection that was still open at the fork is retained in
     `Pool.forked_connections` together with the parent's pid (Oracle: the parent's SessionPool in `OraPool.forked_pools`),
     so that garbage collection in the child cannot close the parent's socket;
  F3 the child's sessions run to completion on a connection opened by the child; the pool remembers the child's pid;
  F4 without a fork, and in the parent before the fork, the pooled connection is reused: a process opens a new
     connection only when it holds no open one (not asserted for Oracle, whose driver pool hands out connections);
  F5 no session fails (only the deliberately raised body error is accepted) - except in single_fault_*, where the
     faulted session may fail and F1-F4 must still hold.
Outside: a real fork(), visibility of committed data between the processes, threads.
"""
import os
from engine.ch import ok
from engine import fakedb as F

NSESS = 3
FULL = os.environ.get('C36_FULL') == '1'             # thorough tier: both sessions before the fault are symbolic in single_fault_*
NMAX = 120

rec = None
DBS = {}
CLOCK = [None]
LAST = {}
COUNT = [0]
KIND = {'file': 'sqlite-file', 'mem': 'sqlite-memory', 'pg': 'postgres', 'my': 'mysql', 'ora': 'oracle'}
SHAPES = ('ro', 'opt', 'imm', 'ser', 'ddl')
SESSION_KW = {'imm': dict(immediate=True), 'ser': dict(serializable=True), 'ddl': dict(ddl=True)}


class BodyError(Exception):
    pass


def _getpid():
    c = CLOCK[0]
    return c.getpid() if c is not None else os.getpid()


def setup():
    global rec
    if rec is not None:
        return
    from pony.orm import core, dbapiprovider as dp
    from engine import env
    env.install_driver_stubs()
    from pony.orm.dbproviders import oracle as pora
    core.time = lambda: 0.0
    if not isinstance(dp.os, F.OsShim): dp.os = F.OsShim(os, _getpid)
    if not isinstance(pora.os, F.OsShim): pora.os = F.OsShim(os, _getpid)
    rec = F.Recorder()
    for k in KIND:
        DBS[k] = F.make_database(KIND[k], rec)
    for k in KIND:
        for mode in ('getpid', 'dbapi'):
            for sh in range(5):
                assert _scenario(k, mode, 0, sh, (sh + 1) % 5, sh, False, 0, sh), (k, mode, sh, LAST)


def _reset(kind, clock, k1):
    from pony.orm.dbapiprovider import Pool
    from pony.orm.dbproviders import oracle as pora
    db = DBS[kind]
    del Pool.forked_connections[:]
    del pora.OraPool.forked_pools[:]
    rec.reset(faults=(k1,), exc_factory=F.driver_exc_factory(KIND[kind], 0), clock=clock)
    rec.session_pools = []
    CLOCK[0] = clock
    pool = db.provider.pool
    if kind == 'ora':
        F.patch_oracle_driver(rec)
        pool.cx_pool = pora.cx_Oracle.SessionPool(**pool.kwargs)      # what OraPool.__init__ did, in the parent
        pool.pid = clock.PARENT
        F.reset_session_state(db)
    elif kind in ('file', 'mem'):
        F.patch_sqlite_driver(rec)
        F.reset_sqlite_database(db)
        pool.pid = clock.PARENT          # the thread bound the database in the parent (SQLitePool.__init__ itself sets no pid)
    else:
        pool.con = pool.pid = None
        F.reset_session_state(db)
    return db


def _session(db, shape, raises, base_id):
    from pony.orm import db_session, select
    T = db.T
    name = SHAPES[shape]
    with db_session(**SESSION_KW.get(name, {})):
        if name == 'ddl':
            db.execute('CREATE TABLE x%d (a INTEGER)' % base_id)
        else:
            select(t for t in T)[:]
            if name != 'ro': T(id=base_id, a=1)
        if raises: raise BodyError()


STRICT_INHERITED = [False]
STRICT_DISCONNECT = [False]
DISCONNECT_PHASE = 10          # recorder phase of a db.disconnect() step = DISCONNECT_PHASE + its position


def _check(kind, db, clock, why, faulted):
    from pony.orm.dbapiprovider import Pool
    from pony.orm.dbproviders import oracle as pora
    from pony.orm import core
    P, C = clock.PARENT, clock.CHILD
    pool = db.provider.pool
    # the session that was open when the fork happened, as continued by the child: known region unless STRICT_INHERITED
    region = clock.fork_phase if (clock.mode == 'dbapi' and clock.fork_in_session and not STRICT_INHERITED[0]) else None
    regions = set() if region is None else {region}
    # second known region: db.disconnect() called by the child BEFORE the child ever connected (Pool.disconnect has no
    # pid check: pool.con is still the parent's object and gets closed).  Asserted strictly by fork_then_disconnect_first_*.
    if not STRICT_DISCONNECT[0]:
        for ph in sorted({e.phase for e in rec.log if e.phase >= DISCONNECT_PHASE and e.pid == C}):
            first = min(e.n for e in rec.log if e.phase == ph)
            if not any(e.pid == C and e.op in ('connect', 'acquire') and e.n < first for e in rec.log):
                regions.add(ph)
    # F1
    for e in rec.log:
        if e.pid == C and e.con is not None and e.con.pid_created == P and e.phase not in regions:
            why.append('child called %s on the parent\'s connection c%d (call #%d)' % (e.op, e.con.id, e.n))
    for sp in rec.session_pools:
        for pid, op, cid, phase in sp.journal:
            if pid == C and sp.pid_created == P and phase not in regions:
                why.append('child called %s on the parent\'s session pool' % op)
    child_connected = any(e.pid == C and e.op in ('connect', 'acquire') for e in rec.log)
    if clock.forked and child_connected:
        # F2
        if kind == 'ora':
            for sp in rec.session_pools:
                if sp.pid_created == P and not any(p is sp and pid == P for p, pid in pora.OraPool.forked_pools):
                    why.append('parent session pool not retained in forked_pools')
        else:
            for con in rec.connections:
                if con.pid_created != P: continue
                closes = [e for e in rec.log if e.con is con and e.op == 'close']
                if closes and closes[0].pid == P: continue          # closed by the parent before the fork
                if closes and closes[0].phase in regions: continue   # closed inside a known region (see F1)
                if not any(c is con and pid == P for c, pid in Pool.forked_connections):
                    why.append('parent connection c%d not retained in forked_connections' % con.id)
        # F3
        if pool.pid != C: why.append('pool.pid is %r after the child connected' % (pool.pid,))
        if kind != 'ora' and pool.con is not None and pool.con.pid_created != C:
            why.append('child pool holds the parent\'s connection')
        if kind == 'ora' and pool.cx_pool.pid_created != C:
            why.append('child pool holds the parent\'s session pool')
    # F4 (not when the injected fault hit a statement inside SQLitePool._connect: the half-initialised connection that
    # leaves in the pool is C19's finding `sqlitepool-partial-connect-no-pid`, not a fork matter)
    in_connect = any(e.faulted and e.shortcut for e in rec.log)
    if kind != 'ora' and not in_connect:
        for pid in (P, C):
            mine = [c for c in rec.connections if c.pid_created == pid]
            for i, con in enumerate(mine[1:], 1):
                prev = mine[i - 1]
                closes = [e for e in rec.log if e.con is prev and e.op == 'close']
                if not closes or closes[0].n > con.n_created:
                    why.append('pid %d opened c%d while c%d was still open' % (pid, con.id, prev.id))
    if core.local.db2cache or core.local.db_session is not None: why.append('session state left')
    return not why


def _say(result):
    """When run from a replay script (replays/.../violation_NN.py): print why the scenario failed and the call journal."""
    import sys
    if not result and 'violation_' in (sys.argv[0] if sys.argv else ''):
        print('reasons: %s' % '; '.join(LAST.get('why', ())))
        print('DB-API call journal: %s' % rec.dump())


def _scenario(kind, mode, f, s1, s2, s3, raises, k1, d=0):
    raises = True if raises else False
    d = 0 if d == 0 else 1 if d == 1 else 2 if d == 2 else 3 if d == 3 else 4
    shapes = []
    for s in (s1, s2, s3):
        shapes.append(0 if s == 0 else 1 if s == 1 else 2 if s == 2 else 3 if s == 3 else 4)
    clock = F.ForkClock(rec, f, mode)
    with F.untraced(rec, clock):
        r = _scenario_body(kind, clock, shapes, raises, k1, d)
    _say(r)
    return r


def _disconnect(db, pos, why):
    """db.disconnect() between sessions (position `pos` = after session pos), in whichever process is running then."""
    n0 = rec.n
    rec.phase = DISCONNECT_PHASE + pos
    try:
        db.disconnect()
    except Exception as e:
        if not any(ev.faulted for ev in rec.log[n0:]):
            why.append('disconnect after session %d failed: %s: %s' % (pos, type(e).__name__, e))
            return False
    return True


def _scenario_body(kind, clock, shapes, raises, k1, d=0):
    COUNT[0] += 1
    why = []
    LAST.clear(); LAST.update(why=why, rec=rec, clock=clock)
    db = _reset(kind, clock, k1)
    try:
        for i, sh in enumerate(shapes[:NSESS]):
            n0 = rec.n
            rec.phase = i + 1
            try:
                _session(db, sh, raises and i == 1, 10 + i)
            except BodyError:
                pass
            except Exception as e:
                if not any(ev.faulted for ev in rec.log[n0:]):
                    why.append('session %d failed: %s: %s' % (i + 1, type(e).__name__, e))
                    return False
            if d == i + 1 and not _disconnect(db, d, why): return False
        rec.armed = False
        rec.phase = NSESS + 1
        try:
            _session(db, 2, False, 20)          # one more plain write session, in the child if a fork happened
        except Exception as e:
            why.append('final session failed: %s: %s' % (type(e).__name__, e))
            return False
        if d == NSESS + 1 and not _disconnect(db, d, why): return False
        if rec.n > NMAX:
            why.append('harness bound: more than NMAX calls')
            return False
        return _check(kind, db, clock, why, k1)
    finally:
        CLOCK[0] = None


def explain(fn, **kw):
    r = globals()[fn](**kw)
    return r, list(LAST.get('why', ())), rec.dump(), LAST['clock'].fork_n


HARNESSES = []

# One explicit function per family x pool (CrossHair reads the conditions from the source text).


def fork_at_getpid_file(f: int, s1: int, s2: int, s3: int, raises: bool, d: int) -> bool:
    """
    pre: 0 <= f <= 8
    pre: 0 <= s1 <= 4 and 0 <= s2 <= 4 and 0 <= s3 <= 4
    pre: 0 <= d <= 4
    pre: FULL or d == 0 or s3 == 2
    post: _
    """
    return ok(_scenario('file', 'getpid', f, s1, s2, s3, raises, 0, d))
HARNESSES.append('fork_at_getpid_file')


def fork_mid_session_file(f: int, s1: int, s2: int, raises: bool, d: int) -> bool:
    """
    pre: 0 <= f <= NMAX
    pre: 0 <= s1 <= 4 and 0 <= s2 <= 4
    pre: 0 <= d <= 4
    pre: FULL or d == 0 or (s2 == 2 and not raises)
    post: _
    """
    return ok(_scenario('file', 'dbapi', f, s1, s2, 2, raises, 0, d))
HARNESSES.append('fork_mid_session_file')


def single_fault_file(f: int, k1: int, s1: int, s2: int, d: int) -> bool:
    """
    pre: 0 <= f <= 8
    pre: 0 <= k1 <= NMAX
    pre: 0 <= s1 <= 4 and 0 <= s2 <= 4
    pre: FULL or s2 == 2
    pre: 0 <= d <= 4
    pre: FULL or d == 0 or s1 == 2
    post: _
    """
    return ok(_scenario('file', 'getpid', f, s1, s2, 2, False, k1, d))
HARNESSES.append('single_fault_file')


def fork_inherited_session_file(f: int, s1: int, s2: int, raises: bool) -> bool:
    """
    pre: 0 <= f <= NMAX
    pre: 0 <= s1 <= 4 and 0 <= s2 <= 4
    post: _
    """
    STRICT_INHERITED[0] = True
    try:
        return ok(_scenario('file', 'dbapi', f, s1, s2, 2, raises, 0))
    finally:
        STRICT_INHERITED[0] = False
HARNESSES.append('fork_inherited_session_file')


def fork_then_disconnect_first_file(f: int, s1: int, s2: int, d: int) -> bool:
    """
    pre: 0 <= f <= NMAX
    pre: 0 <= s1 <= 4 and 0 <= s2 <= 4
    pre: 1 <= d <= 4
    pre: FULL or s2 == 2
    post: _
    """
    STRICT_DISCONNECT[0] = True
    try:
        return ok(_scenario('file', 'dbapi', f, s1, s2, 2, False, 0, d))
    finally:
        STRICT_DISCONNECT[0] = False
HARNESSES.append('fork_then_disconnect_first_file')


def fork_at_getpid_mem(f: int, s1: int, s2: int, s3: int, raises: bool, d: int) -> bool:
    """
    pre: 0 <= f <= 8
    pre: 0 <= s1 <= 4 and 0 <= s2 <= 4 and 0 <= s3 <= 4
    pre: 0 <= d <= 4
    pre: FULL or d == 0 or s3 == 2
    post: _
    """
    return ok(_scenario('mem', 'getpid', f, s1, s2, s3, raises, 0, d))
HARNESSES.append('fork_at_getpid_mem')


def fork_mid_session_mem(f: int, s1: int, s2: int, raises: bool, d: int) -> bool:
    """
    pre: 0 <= f <= NMAX
    pre: 0 <= s1 <= 4 and 0 <= s2 <= 4
    pre: 0 <= d <= 4
    pre: FULL or d == 0 or (s2 == 2 and not raises)
    post: _
    """
    return ok(_scenario('mem', 'dbapi', f, s1, s2, 2, raises, 0, d))
HARNESSES.append('fork_mid_session_mem')


def single_fault_mem(f: int, k1: int, s1: int, s2: int, d: int) -> bool:
    """
    pre: 0 <= f <= 8
    pre: 0 <= k1 <= NMAX
    pre: 0 <= s1 <= 4 and 0 <= s2 <= 4
    pre: FULL or s2 == 2
    pre: 0 <= d <= 4
    pre: FULL or d == 0 or s1 == 2
    post: _
    """
    return ok(_scenario('mem', 'getpid', f, s1, s2, 2, False, k1, d))
HARNESSES.append('single_fault_mem')


def fork_inherited_session_mem(f: int, s1: int, s2: int, raises: bool) -> bool:
    """
    pre: 0 <= f <= NMAX
    pre: 0 <= s1 <= 4 and 0 <= s2 <= 4
    post: _
    """
    STRICT_INHERITED[0] = True
    try:
        return ok(_scenario('mem', 'dbapi', f, s1, s2, 2, raises, 0))
    finally:
        STRICT_INHERITED[0] = False
HARNESSES.append('fork_inherited_session_mem')


def fork_then_disconnect_first_mem(f: int, s1: int, s2: int, d: int) -> bool:
    """
    pre: 0 <= f <= NMAX
    pre: 0 <= s1 <= 4 and 0 <= s2 <= 4
    pre: 1 <= d <= 4
    pre: FULL or s2 == 2
    post: _
    """
    STRICT_DISCONNECT[0] = True
    try:
        return ok(_scenario('mem', 'dbapi', f, s1, s2, 2, False, 0, d))
    finally:
        STRICT_DISCONNECT[0] = False
HARNESSES.append('fork_then_disconnect_first_mem')


def fork_at_getpid_pg(f: int, s1: int, s2: int, s3: int, raises: bool, d: int) -> bool:
    """
    pre: 0 <= f <= 8
    pre: 0 <= s1 <= 4 and 0 <= s2 <= 4 and 0 <= s3 <= 4
    pre: 0 <= d <= 4
    pre: FULL or d == 0 or s3 == 2
    post: _
    """
    return ok(_scenario('pg', 'getpid', f, s1, s2, s3, raises, 0, d))
HARNESSES.append('fork_at_getpid_pg')


def fork_mid_session_pg(f: int, s1: int, s2: int, raises: bool, d: int) -> bool:
    """
    pre: 0 <= f <= NMAX
    pre: 0 <= s1 <= 4 and 0 <= s2 <= 4
    pre: 0 <= d <= 4
    pre: FULL or d == 0 or (s2 == 2 and not raises)
    post: _
    """
    return ok(_scenario('pg', 'dbapi', f, s1, s2, 2, raises, 0, d))
HARNESSES.append('fork_mid_session_pg')


def single_fault_pg(f: int, k1: int, s1: int, s2: int, d: int) -> bool:
    """
    pre: 0 <= f <= 8
    pre: 0 <= k1 <= NMAX
    pre: 0 <= s1 <= 4 and 0 <= s2 <= 4
    pre: FULL or s2 == 2
    pre: 0 <= d <= 4
    pre: FULL or d == 0 or s1 == 2
    post: _
    """
    return ok(_scenario('pg', 'getpid', f, s1, s2, 2, False, k1, d))
HARNESSES.append('single_fault_pg')


def fork_inherited_session_pg(f: int, s1: int, s2: int, raises: bool) -> bool:
    """
    pre: 0 <= f <= NMAX
    pre: 0 <= s1 <= 4 and 0 <= s2 <= 4
    post: _
    """
    STRICT_INHERITED[0] = True
    try:
        return ok(_scenario('pg', 'dbapi', f, s1, s2, 2, raises, 0))
    finally:
        STRICT_INHERITED[0] = False
HARNESSES.append('fork_inherited_session_pg')


def fork_then_disconnect_first_pg(f: int, s1: int, s2: int, d: int) -> bool:
    """
    pre: 0 <= f <= NMAX
    pre: 0 <= s1 <= 4 and 0 <= s2 <= 4
    pre: 1 <= d <= 4
    pre: FULL or s2 == 2
    post: _
    """
    STRICT_DISCONNECT[0] = True
    try:
        return ok(_scenario('pg', 'dbapi', f, s1, s2, 2, False, 0, d))
    finally:
        STRICT_DISCONNECT[0] = False
HARNESSES.append('fork_then_disconnect_first_pg')


def fork_at_getpid_my(f: int, s1: int, s2: int, s3: int, raises: bool, d: int) -> bool:
    """
    pre: 0 <= f <= 8
    pre: 0 <= s1 <= 4 and 0 <= s2 <= 4 and 0 <= s3 <= 4
    pre: 0 <= d <= 4
    pre: FULL or d == 0 or s3 == 2
    post: _
    """
    return ok(_scenario('my', 'getpid', f, s1, s2, s3, raises, 0, d))
HARNESSES.append('fork_at_getpid_my')


def fork_mid_session_my(f: int, s1: int, s2: int, raises: bool, d: int) -> bool:
    """
    pre: 0 <= f <= NMAX
    pre: 0 <= s1 <= 4 and 0 <= s2 <= 4
    pre: 0 <= d <= 4
    pre: FULL or d == 0 or (s2 == 2 and not raises)
    post: _
    """
    return ok(_scenario('my', 'dbapi', f, s1, s2, 2, raises, 0, d))
HARNESSES.append('fork_mid_session_my')


def single_fault_my(f: int, k1: int, s1: int, s2: int, d: int) -> bool:
    """
    pre: 0 <= f <= 8
    pre: 0 <= k1 <= NMAX
    pre: 0 <= s1 <= 4 and 0 <= s2 <= 4
    pre: FULL or s2 == 2
    pre: 0 <= d <= 4
    pre: FULL or d == 0 or s1 == 2
    post: _
    """
    return ok(_scenario('my', 'getpid', f, s1, s2, 2, False, k1, d))
HARNESSES.append('single_fault_my')


def fork_inherited_session_my(f: int, s1: int, s2: int, raises: bool) -> bool:
    """
    pre: 0 <= f <= NMAX
    pre: 0 <= s1 <= 4 and 0 <= s2 <= 4
    post: _
    """
    STRICT_INHERITED[0] = True
    try:
        return ok(_scenario('my', 'dbapi', f, s1, s2, 2, raises, 0))
    finally:
        STRICT_INHERITED[0] = False
HARNESSES.append('fork_inherited_session_my')


def fork_then_disconnect_first_my(f: int, s1: int, s2: int, d: int) -> bool:
    """
    pre: 0 <= f <= NMAX
    pre: 0 <= s1 <= 4 and 0 <= s2 <= 4
    pre: 1 <= d <= 4
    pre: FULL or s2 == 2
    post: _
    """
    STRICT_DISCONNECT[0] = True
    try:
        return ok(_scenario('my', 'dbapi', f, s1, s2, 2, False, 0, d))
    finally:
        STRICT_DISCONNECT[0] = False
HARNESSES.append('fork_then_disconnect_first_my')


def fork_at_getpid_ora(f: int, s1: int, s2: int, s3: int, raises: bool, d: int) -> bool:
    """
    pre: 0 <= f <= 8
    pre: 0 <= s1 <= 4 and 0 <= s2 <= 4 and 0 <= s3 <= 4
    pre: 0 <= d <= 4
    pre: FULL or d == 0 or s3 == 2
    post: _
    """
    return ok(_scenario('ora', 'getpid', f, s1, s2, s3, raises, 0, d))
HARNESSES.append('fork_at_getpid_ora')


def fork_mid_session_ora(f: int, s1: int, s2: int, raises: bool, d: int) -> bool:
    """
    pre: 0 <= f <= NMAX
    pre: 0 <= s1 <= 4 and 0 <= s2 <= 4
    pre: 0 <= d <= 4
    pre: FULL or d == 0 or (s2 == 2 and not raises)
    post: _
    """
    return ok(_scenario('ora', 'dbapi', f, s1, s2, 2, raises, 0, d))
HARNESSES.append('fork_mid_session_ora')


def single_fault_ora(f: int, k1: int, s1: int, s2: int, d: int) -> bool:
    """
    pre: 0 <= f <= 8
    pre: 0 <= k1 <= NMAX
    pre: 0 <= s1 <= 4 and 0 <= s2 <= 4
    pre: FULL or s2 == 2
    pre: 0 <= d <= 4
    pre: FULL or d == 0 or s1 == 2
    post: _
    """
    return ok(_scenario('ora', 'getpid', f, s1, s2, 2, False, k1, d))
HARNESSES.append('single_fault_ora')


def fork_inherited_session_ora(f: int, s1: int, s2: int, raises: bool) -> bool:
    """
    pre: 0 <= f <= NMAX
    pre: 0 <= s1 <= 4 and 0 <= s2 <= 4
    post: _
    """
    STRICT_INHERITED[0] = True
    try:
        return ok(_scenario('ora', 'dbapi', f, s1, s2, 2, raises, 0))
    finally:
        STRICT_INHERITED[0] = False
HARNESSES.append('fork_inherited_session_ora')


def fork_then_disconnect_first_ora(f: int, s1: int, s2: int, d: int) -> bool:
    """
    pre: 0 <= f <= NMAX
    pre: 0 <= s1 <= 4 and 0 <= s2 <= 4
    pre: 1 <= d <= 4
    pre: FULL or s2 == 2
    post: _
    """
    STRICT_DISCONNECT[0] = True
    try:
        return ok(_scenario('ora', 'dbapi', f, s1, s2, 2, False, 0, d))
    finally:
        STRICT_DISCONNECT[0] = False
HARNESSES.append('fork_then_disconnect_first_ora')
