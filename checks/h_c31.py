"""CrossHair harnesses for C31 (partial: the two kernels named in DESIGN.md; pickling is outside - `pickle` is C code).

Kernel 1 - composite keys are encoded distinctly (`Bag._reduce_composite_pk`).
  Symbolic: the key parts (strings of bounded length over the alphabet `*` (escape), `,` (separator), `a` (ordinary); in the mixed
  harness one part is an int from a fixed list (rendering a symbolic int to text does not confirm) next to a symbolic string).  Injectivity is shown as a decoder round trip: a reference decoder written from the
  documented escaping rule ("`*` escapes the next character; an unescaped `,` separates parts") applied to the REAL encoder's
  output returns the parts; hence two different keys can never have the same encoding (with the arity fixed by the entity).

Kernel 2 - value selection of `Entity.to_dict` and `Bag._process_object` / `Bag.to_dict`.
  (a) duck-typed attributes and objects (only the members those functions read), so that the key values stay symbolic:
      symbolic are the kind of each attribute (plain / to-one / to-many / lazy), whether a to-one value is None, the number
      of primary-key ATTRIBUTES and primary-key COLUMNS of the related entity (1/1, 1/2, 2/2, 2/3 - all four exist in real
      models, see the structural obligation in checks/c31.py), the key column values (unbounded ints; -1/0/10 where a key is
      rendered to text, 0/1 where whole result dictionaries hash it), the options with_collections / with_lazy /
      related_objects / only / exclude.  The real `EntityMeta._get_attrs_` does the attribute selection.
  (b) real entities loaded from an in-memory SQLite database (fixed data, a model with single, composite and
      one-attribute-two-column keys whose string parts contain `,` and `*`), symbolic option flags.
  Reference statement (from the documentation of to_dict and of the serialization bag):
      selected attributes = `only` if given, else all attributes minus collections (unless with_collections) minus lazy ones
      (unless with_lazy); minus `exclude`;
      value = the current attribute value; a related object is reported by its raw primary key - the single column value, or
      the tuple of column values when the key spans several columns - or as the object itself with related_objects=True;
      None stays None; a collection is the sorted list of those keys (objects);
      in a Bag, a collection lists the keys under which `Bag.to_dict()` files the related objects (single column value, or the
      encoded string of kernel 1 when the key spans several columns), so that every listed key can be looked up.
"""
import os
from typing import Optional as Opt

from engine.ch import ok
from pony.orm import core
from pony.orm import serialization as ser

N3 = int(os.environ.get('C31_N3', '1'))          # length bound of the three-part harness
N2 = int(os.environ.get('C31_N2', '2'))          # length bound of the two-part harnesses
ALPHA = '*,a'


# ---- kernel 1 ---------------------------------------------------------------------------------------------------------

def ref_decode(s):
    """reference decoder: `*` escapes the next character, an unescaped `,` ends a part.  None for text that no key encodes to."""
    parts, cur, i, n = [], [], 0, len(s)
    while i < n:
        c = s[i]
        if c == '*':
            if i + 1 >= n: return None
            nxt = s[i + 1]
            if nxt != '*' and nxt != ',': return None
            cur.append(nxt); i += 2
        elif c == ',':
            parts.append(''.join(cur)); cur = []; i += 1
        else:
            cur.append(c); i += 1
    parts.append(''.join(cur))
    return parts


def pk2_roundtrip(a: str, b: str) -> bool:
    """
    pre: len(a) <= N2 and len(b) <= N2
    pre: all(c in ALPHA for c in a) and all(c in ALPHA for c in b)
    post: _
    """
    enc = ser.Bag._reduce_composite_pk(None, (a, b))
    return ok(ref_decode(enc) == [a, b])


def pk3_roundtrip(a: str, b: str, c: str) -> bool:
    """
    pre: len(a) <= N3 and len(b) <= N3 and len(c) <= N3
    pre: all(x in ALPHA for x in a) and all(x in ALPHA for x in b) and all(x in ALPHA for x in c)
    post: _
    """
    enc = ser.Bag._reduce_composite_pk(None, (a, b, c))
    return ok(ref_decode(enc) == [a, b, c])


INTVALS = (-12, -1, 0, 7, 10, 345)


def pk2_int_str_roundtrip(n: int, s: str) -> bool:
    """
    pre: n in INTVALS
    pre: len(s) <= N2
    pre: all(c in ALPHA for c in s)
    post: _
    """
    # a numeric key part next to a string part, both orders (the number is rendered by str(); its digits and sign are not special)
    d1 = ref_decode(ser.Bag._reduce_composite_pk(None, (n, s)))
    d2 = ref_decode(ser.Bag._reduce_composite_pk(None, (s, n)))
    return ok(d1 == [str(n), s] and d2 == [s, str(n)])


# ---- kernel 2a: duck-typed attributes -------------------------------------------------------------------------------------

class DuckRelEntity(object):
    """what the serialisers read of the related entity class"""
    def __init__(self, name, n_attrs, n_cols):
        self.__name__ = name
        self._pk_is_composite_ = n_attrs > 1              # core.py: entity._pk_is_composite_ = len(pk_attrs) > 1
        self._pk_columns_ = ['c%d' % i for i in range(n_cols)]


class DuckRelObj(object):
    def __init__(self, raw): self.raw = raw
    def _get_raw_pkval_(self): return self.raw
    def __lt__(self, other): return self.raw < other.raw


class DuckReverse(object):
    def __init__(self, entity): self.entity = entity


class DuckAttr(object):
    def __init__(self, name, kind, value, lazy=False, rel_entity=None):
        self.name, self.kind, self.value, self.lazy = name, kind, value, lazy
        self.is_collection = kind == 'many'
        self.is_relation = kind in ('one', 'many')
        self.reverse = DuckReverse(rel_entity) if rel_entity is not None else None
    def __get__(self, obj, cls=None):
        if obj is None: return self
        return self.value


PK_SHAPES = ((1, 1), (1, 2), (2, 2), (2, 3))       # (primary key attributes, primary key columns) of the related entity


def _raw(n_cols, x, y, z):
    return (x, y, z)[:n_cols]


def _duck_model(shape, k1, none1, lazy2, x, y, z, x2, y2, z2, two_items):
    """an object with four attributes: `a` plain, `b` plain (maybe lazy), `r` to-one (maybe None), `s` to-many (1 or 2 items);
    the related entity has PK_SHAPES[shape]"""
    n_attrs, n_cols = PK_SHAPES[shape]
    rel = DuckRelEntity('Rel', n_attrs, n_cols)
    o1 = DuckRelObj(_raw(n_cols, x, y, z))
    o2 = DuckRelObj(_raw(n_cols, x2, y2, z2))
    items = [o1, o2] if two_items else [o1]
    attrs = [DuckAttr('a', 'plain', k1), DuckAttr('b', 'plain', 'bee', lazy=lazy2),
             DuckAttr('r', 'one', None if none1 else o2, rel_entity=rel), DuckAttr('s', 'many', list(items), rel_entity=rel)]

    class Owner(object):
        _session_cache_ = None
        _attrs_ = attrs
        _adict_ = {a.name: a for a in attrs}
        _attrnames_cache_ = {}
        _pk_columns_ = ['id']
        _pk_is_composite_ = False
        @classmethod
        def _get_attrs_(cls, only=None, exclude=None, with_collections=False, with_lazy=False):
            return core.EntityMeta._get_attrs_(cls, only, exclude, with_collections, with_lazy)     # the REAL selection code
        def _get_raw_pkval_(self): return (7,)
    return Owner, Owner(), rel, items, o2, attrs


def _ref_selected(attrs, only, exclude, with_collections, with_lazy):
    if only: sel = [a for nm in only for a in attrs if a.name == nm]
    else: sel = [a for a in attrs if (with_collections or a.kind != 'many') and (with_lazy or not a.lazy or a.kind == 'many')]
    return [a for a in sel if not (exclude and a.name in exclude)]


NAMES = ('a', 'b', 's')


def _subset(names, flags):
    return [nm for nm, m in zip(names, flags) if m]


def _same(got, exp):
    """got == exp for the duck model: related objects by identity, everything else by value, same attribute order"""
    if list(got.keys()) != list(exp.keys()): return False
    for nm in exp:
        g, e = got[nm], exp[nm]
        if isinstance(e, list):
            if not (isinstance(g, list) and len(g) == len(e)): return False
            for gi, ei in zip(g, e):
                if isinstance(ei, DuckRelObj):
                    if gi is not ei: return False
                elif gi != ei: return False
        elif isinstance(e, DuckRelObj) or e is None:
            if g is not e: return False
        elif g != e: return False
    return True


def _ref_entity_to_dict(attrs, n_cols, only, exclude, wc, wl, ro):
    exp = {}
    for a in _ref_selected(attrs, only, exclude, wc, wl):
        if a.kind == 'plain': v = a.value
        elif a.kind == 'one':
            if a.value is None: v = None
            elif ro: v = a.value
            else: v = a.value.raw[0] if n_cols == 1 else a.value.raw
        else:
            if ro: v = sorted(a.value)
            else: v = sorted((it.raw[0] if n_cols == 1 else it.raw) for it in a.value)
        exp[a.name] = v
    return exp


def _shape(shape):
    return 0 if shape == 0 else 1 if shape == 1 else 2 if shape == 2 else 3


def duck_entity_to_dict_values(shape: int, k1: int, none1: bool, x: int, y: int, z: int, x2: int, y2: int, z2: int, two_items: bool, ro: bool) -> bool:
    """
    pre: 0 <= shape < 4
    post: _
    """
    # which value is reported for plain / to-one / to-many attributes; key column values are unbounded ints
    shape = _shape(shape)
    Owner, obj, rel, items, one, attrs = _duck_model(shape, k1, none1, False, x, y, z, x2, y2, z2, two_items)
    got = core.Entity.to_dict(obj, with_collections=True, with_lazy=True, related_objects=ro)
    return ok(_same(got, _ref_entity_to_dict(attrs, PK_SHAPES[shape][1], None, None, True, True, ro)))


def duck_entity_to_dict_select(lazy2: bool, wc: bool, wl: bool, use_only: bool, o0: bool, o1: bool, o2: bool, e0: bool, e2: bool, k1: int) -> bool:
    """
    post: _
    """
    # which attributes are reported: only / exclude / with_collections / with_lazy through the real EntityMeta._get_attrs_
    Owner, obj, rel, items, one, attrs = _duck_model(2, k1, False, lazy2, 1, 2, 3, 4, 5, 6, True)
    only = (_subset(NAMES, (o0, o1, o2)) or None) if use_only else None      # to_dict(only=[]) raises TypeError (unhashable cache key); not asserted
    exclude = _subset(('a', 's'), (e0, e2)) or None
    got = core.Entity.to_dict(obj, only=only, exclude=exclude, with_collections=wc, with_lazy=wl)
    return ok(_same(got, _ref_entity_to_dict(attrs, 2, only, exclude, wc, wl, False)))


class DuckDatabase(object):
    def __init__(self, *entities): self.entities = {e.__name__: e for e in entities}


def _ref_bag_key(raw, n_cols):
    """the key under which Bag.to_dict() files an object: the column value, or - for a key of several columns - the parts
    joined by `,` (kernel 1; integer parts contain neither `,` nor `*`, so they are not changed by the escaping)"""
    return raw[0] if n_cols == 1 else ','.join(str(p) for p in raw)


def _bag_process_object(shape, k1, none1, x, y, z, x2, y2, z2, ro):
    Owner, obj, rel, items, one, attrs = _duck_model(shape, k1, none1, False, x, y, z, x2, y2, z2, False)
    n_cols = PK_SHAPES[shape][1]
    bag = ser.Bag(DuckDatabase(Owner))
    bag.entity_configs[Owner] = (tuple(attrs), ro)
    bag.entity_configs[DuckRelObj] = ((), False)             # related objects contribute no attributes of their own here
    bag._process_object(obj)
    d = bag.dicts[Owner][obj]
    if list(d.keys()) != ['a', 'b', 'r', 's']: return False
    if d['a'] != k1 or d['b'] != 'bee': return False
    # to-one: raw key (scalar for one column, tuple otherwise) or None
    if none1:
        if d['r'] is not None: return False
    elif d['r'] != (one.raw[0] if n_cols == 1 else one.raw): return False
    # to-many: the list of the keys under which the related objects are filed by Bag.to_dict()
    s = d['s']
    want = _ref_bag_key(items[0].raw, n_cols)
    if not (isinstance(s, list) and len(s) == 1 and isinstance(s[0], str) == isinstance(want, str) and s[0] == want): return False
    # related objects are put into the bag exactly when related_objects is on
    filed = set(id(o) for o in bag.dicts.get(DuckRelObj, {}))
    want_filed = set(id(o) for o in (items + ([] if none1 else [one]))) if ro else set()
    return filed == want_filed


KEYVALS = (-1, 0, 10)          # key column values where the key is rendered to text: a sign, one digit, two digits


def duck_bag_process_object_1col(k1: int, none1: bool, x: int, x2: int, ro: bool) -> bool:
    """
    post: _
    """
    # related entity with a one-column key: the key values stay unbounded symbolic ints
    return ok(_bag_process_object(0, k1, none1, x, 0, 0, x2, 0, 0, ro))


def duck_bag_process_object_ncol(three: bool, k1: int, none1: bool, x: int, y: int, z: int, x2: int, ro: bool) -> bool:
    """
    pre: x in KEYVALS and y in KEYVALS and (z in KEYVALS if three else z == 0)
    post: _
    """
    # related entity with 2 key attributes over 2 or 3 columns: the collection lists encoded text keys
    return ok(_bag_process_object(3 if three else 2, k1, none1, x, y, z, x2, 5, 6, ro))


def duck_bag_process_object_1attr2col(k1: int, none1: bool, x: int, y: int, x2: int, ro: bool) -> bool:
    """
    pre: x in KEYVALS and y in KEYVALS
    post: _
    """
    # the related entity has ONE primary-key attribute that spans TWO columns (its key is a reference to a composite-key entity)
    return ok(_bag_process_object(1, k1, none1, x, y, 0, x2, 5, 0, ro))


def _bag_to_dict_keys(shape, x, y, z, x2, y2, z2):
    # whole Bag.to_dict() on ducks: two related objects in a collection; every key listed for the collection must be a key of
    # the related entity's section, and two objects with different raw keys must get different keys
    # (small key values, made concrete first: the result dictionaries hash their keys)
    x, y, z, x2, y2, z2 = [1 if v == 1 else 0 for v in (x, y, z, x2, y2, z2)]
    n_attrs, n_cols = PK_SHAPES[shape]
    if _raw(n_cols, x, y, z) == _raw(n_cols, x2, y2, z2): return True         # one object, not two
    Owner, obj, rel, items, one, attrs = _duck_model(shape, 0, True, False, x, y, z, x2, y2, z2, True)

    class Rel(DuckRelObj):
        _pk_columns_ = rel._pk_columns_
        _pk_is_composite_ = rel._pk_is_composite_
        _session_cache_ = None
        @classmethod
        def _get_attrs_(cls, *a, **k): return ()
    for it in items: it.__class__ = Rel
    attrs[3].reverse.entity = Rel
    bag = ser.Bag(DuckDatabase(Owner, Rel))
    bag.entity_configs[Owner] = (tuple(attrs), True)
    bag.entity_configs[Rel] = ((), False)
    bag._put_object(obj)
    out = bag.to_dict()
    listed = out['Owner'][7]['s']
    section = out['Rel']
    return len(section) == 2 and len(listed) == 2 and listed[0] != listed[1] and listed == sorted(listed) and all(k in section for k in listed)


def duck_bag_to_dict_keys(shape: int, x: int, y: int, z: int, x2: int, y2: int, z2: int) -> bool:
    """
    pre: shape == 0 or shape == 2 or shape == 3
    pre: 0 <= x <= 1 and 0 <= y <= 1 and 0 <= z <= 1 and 0 <= x2 <= 1 and 0 <= y2 <= 1 and 0 <= z2 <= 1
    post: _
    """
    return ok(_bag_to_dict_keys(_shape(shape), x, y, z, x2, y2, z2))


def duck_bag_to_dict_keys_1attr2col(x: int, y: int, x2: int, y2: int) -> bool:
    """
    pre: 0 <= x <= 1 and 0 <= y <= 1 and 0 <= x2 <= 1 and 0 <= y2 <= 1
    post: _
    """
    return ok(_bag_to_dict_keys(1, x, y, 0, x2, y2, 0))


# ---- kernel 2b: real entities, symbolic options --------------------------------------------------------------------------

db = None
E = {}

# fixture (plain data; the expectations below are computed from it, not from pony)
PROJS = [('x', 1), ('x', 2), ('x,1', 2), ('*', 3)]
PROJ_KEY = {('x', 1): 'x,1', ('x', 2): 'x,2', ('x,1', 2): 'x*,1,2', ('*', 3): '**,3'}     # hand-encoded per the documented rule
PROJ_LEAD = {('x', 2): 1}                                                                  # Proj -> id of the leading Person
PROJ_DETAIL = [('x', 1), ('x', 2)]                                                         # projects that have a ProjDetail
PERSON1 = dict(id=1, name='Ann', note='n1', de=7, dept=1, fav=('x,1', 2), projects=[('x', 1), ('x,1', 2), ('*', 3)],
               watching=[('x', 1), ('x', 2)], leads=[('x', 2)])
PERSON2 = dict(id=2, name='Bob', note='', de=None, dept=None, fav=None, projects=[], watching=[], leads=[])
PERSON_ATTRS = [('id', 'plain', False), ('name', 'plain', False), ('note', 'plain', True), ('de', 'plain', False), ('dept', 'one', False), ('fav', 'one', False),
                ('projects', 'many', False), ('watching', 'many', False), ('leads', 'many', False)]


def setup():
    global db
    if db is not None: return
    from pony.orm import Database, PrimaryKey, Required, Optional, Set, db_session
    core.time = lambda: 0.0
    db = Database()

    class Dept(db.Entity):                      # 1 key attribute, 1 column
        id = PrimaryKey(int)
        name = Required(str)
        staff = Set('Person')

    class Proj(db.Entity):                      # 2 key attributes, 2 columns
        code = Required(str)
        no = Required(int)
        PrimaryKey(code, no)
        members = Set('Person', reverse='projects')
        fans = Set('Person', reverse='fav')
        lead = Optional('Person', reverse='leads')
        detail = Optional('ProjDetail')
        tasks = Set('Task')

    class ProjDetail(db.Entity):                # 1 key attribute, 2 columns
        proj = PrimaryKey(Proj)
        text = Optional(str)
        watchers = Set('Person')

    class Task(db.Entity):                      # 2 key attributes, 3 columns
        proj = Required(Proj)
        n = Required(int)
        PrimaryKey(proj, n)

    class Animal(db.Entity):                    # a two-class hierarchy: the attribute lists of to_dict are cached per class
        id = PrimaryKey(int)
        name = Required(str)
        toys = Set('Toy')

    class Dog(Animal):
        tricks = Optional(int)

    class Toy(db.Entity):
        id = PrimaryKey(int)
        owner = Optional(Animal)

    class Box(db.Entity):
        id = PrimaryKey(int)
        memos = Set('Memo', reverse='dept')
        secret = Optional('Memo', reverse='boss')      # one-to-one, column on the Memo side

    class Memo(db.Entity):                      # auto-generated key: a new object has no key until it is flushed
        id = PrimaryKey(int, auto=True)
        dept = Optional(Box)
        boss = Optional(Box, reverse='secret')

    class Person(db.Entity):
        id = PrimaryKey(int)
        name = Required(str)
        note = Optional(str, lazy=True)
        de = Optional(int)                          # a name that is a substring of another attribute's name ('dept')
        dept = Optional(Dept)
        fav = Optional(Proj, reverse='fans')
        projects = Set(Proj, reverse='members')
        watching = Set(ProjDetail)
        leads = Set(Proj, reverse='lead')
    for _cls in (Proj, Person, Dept, Animal, Dog, Toy):            # picklable by reference: module-level names
        _cls.__qualname__ = _cls.__name__; _cls.__module__ = __name__; globals()[_cls.__name__] = _cls
    E.update(Animal=Animal, Dog=Dog, Toy=Toy, Memo=Memo, Box=Box, Dept=Dept, Proj=Proj, ProjDetail=ProjDetail, Task=Task, Person=Person)
    db.bind('sqlite', ':memory:')
    db.generate_mapping(create_tables=True)
    with db_session:
        d = Dept(id=1, name='D')
        Box(id=1)
        a1 = Animal(id=1, name='cat'); d2 = Dog(id=2, name='rex', tricks=3); Toy(id=1, owner=a1); Toy(id=2, owner=d2); Toy(id=3, owner=d2)
        ps = {k: Proj(code=k[0], no=k[1]) for k in PROJS}
        ds = {k: ProjDetail(proj=ps[k], text='t') for k in PROJ_DETAIL}
        Task(proj=ps[('x', 1)], n=5)
        Person(id=1, name='Ann', note='n1', de=7, dept=d, fav=ps[PERSON1['fav']], projects=[ps[k] for k in PERSON1['projects']],
               watching=[ds[k] for k in PERSON1['watching']], leads=[ps[k] for k in PERSON1['leads']])
        Person(id=2, name='Bob')


def _fresh():
    core.local.db_context_counter = 0
    core.local.db_session = None
    core.rollback()
    for e in E.values(): e._attrnames_cache_.clear()


def _ref_person_selected(only, exclude, wc, wl):
    if only: sel = [a for nm in only for a in PERSON_ATTRS if a[0] == nm]
    else: sel = [a for a in PERSON_ATTRS if (wc or a[1] != 'many') and (wl or not a[2])]
    return [a for a in sel if not (exclude and a[0] in exclude)]


def _obj_of(name, key):
    if name == 'dept': return E['Dept'][key]
    if name == 'watching': return E['ProjDetail'][E['Proj'][key]]
    return E['Proj'][key]


ONLY_NAMES = ('note', 'fav', 'watching')
EXCL_NAMES = ('dept',)


def _options(use_only, o0, o1, o2, e0):
    only = (_subset(ONLY_NAMES, (o0, o1, o2)) or None) if use_only else None
    exclude = _subset(EXCL_NAMES, (e0,)) or None
    return only, exclude


def _ref_person_to_dict(fix, only, exclude, wc, wl, ro):
    exp = {}
    for nm, kind, lazy in _ref_person_selected(only, exclude, wc, wl):
        v = fix[nm]
        if kind == 'one' and v is not None and ro: v = _obj_of(nm, v)
        elif kind == 'many': v = sorted(_obj_of(nm, k) for k in v) if ro else sorted(v)
        exp[nm] = v
    return exp


def real_entity_to_dict(wc: bool, wl: bool, ro: bool, use_only: bool, o0: bool, o1: bool, o2: bool, e0: bool) -> bool:
    """
    post: _
    """
    from pony.orm import db_session, rollback
    _fresh()
    only, exclude = _options(use_only, o0, o1, o2, e0)
    with db_session:
        try:
            got = E['Person'][1].to_dict(only=only, exclude=exclude, with_collections=wc, with_lazy=wl, related_objects=ro)
            return ok(list(got.items()) == list(_ref_person_to_dict(PERSON1, only, exclude, wc, wl, ro).items()))
        finally:
            rollback()


def real_entity_to_dict_misc(person2: bool, wc: bool, wl: bool, ro: bool, as_text: bool, comma: bool, o1: bool, o2: bool, e0: bool) -> bool:
    """
    post: _
    """
    # the object without related objects (None / empty collections), and only/exclude given as text ("a b" / "a, b")
    from pony.orm import db_session, rollback
    _fresh()
    fix = PERSON2 if person2 else PERSON1
    only, exclude = (_options(o2, True, o1, o2, e0) if as_text else (None, None))          # (o2 False: exclude given as text WITHOUT only)
    sep = ', ' if comma else ' '
    with db_session:
        try:
            got = E['Person'][fix['id']].to_dict(only=sep.join(only) if only else None, exclude=sep.join(exclude) if exclude else None,
                                                 with_collections=wc, with_lazy=wl, related_objects=ro)
            return ok(list(got.items()) == list(_ref_person_to_dict(fix, only, exclude, wc, wl, ro).items()))
        finally:
            rollback()


def _ref_related_entry(ename, key):
    """what the bag reports for a related object (put in with process_related=False: its collections are skipped)"""
    if ename == 'Dept': return {'id': 1, 'name': 'D'}
    if ename == 'Proj':
        return {'code': key[0], 'no': key[1], 'lead': PROJ_LEAD.get(key), 'detail': key if key in PROJ_DETAIL else None}
    return {'proj': key, 'text': 't'}


def _real_bag(both, wc, wl, ro, only, exclude):
    from pony.orm import db_session, rollback
    _fresh()
    with db_session:
        try:
            people = [E['Person'][1]] + ([E['Person'][2]] if both else [])
            bag = ser.Bag(db)
            bag.config(E['Person'], only=only, exclude=exclude, with_collections=wc, with_lazy=wl, related_objects=ro)
            bag.put(people)
            out = bag.to_dict()
            sel = _ref_person_selected(only, exclude, wc, wl)
            exp = {'Person': {}}
            for fix in ([PERSON1, PERSON2] if both else [PERSON1]):
                d = {}
                for nm, kind, lazy in sel:
                    v = fix[nm]
                    ename = 'Dept' if nm == 'dept' else 'ProjDetail' if nm == 'watching' else 'Proj'
                    if kind == 'many':
                        if ro:
                            for k in v: exp.setdefault(ename, {})[PROJ_KEY[k]] = _ref_related_entry(ename, k)
                        v = sorted(PROJ_KEY[k] for k in v)      # the keys of the related objects' entries in this same output
                    elif kind == 'one' and v is not None and ro:
                        exp.setdefault(ename, {})[v if nm == 'dept' else PROJ_KEY[v]] = _ref_related_entry(ename, v)
                    d[nm] = v
                exp['Person'][fix['id']] = d
            return {k: dict(v) for k, v in out.items()} == exp
        finally:
            rollback()


def real_bag_to_dict(both: bool, wl: bool, ro: bool, use_only: bool, o0: bool, o1: bool, e0: bool, wc: bool) -> bool:
    """
    post: _
    """
    # Person.watching (collection of the one-attribute/two-column key entity) is kept out of this harness: see real_bag_watching
    only, exclude = _options(use_only, o0, o1, False, e0)
    exclude = (exclude or []) + ['watching']
    return ok(_real_bag(both, wc, wl, ro, only, exclude))


def real_bag_watching(both: bool, wl: bool, ro: bool, use_only: bool, o0: bool, o1: bool, e0: bool) -> bool:
    """
    post: _
    """
    only, exclude = _options(use_only, o0, o1, True, e0)
    return ok(_real_bag(both, True, wl, ro, only, exclude))


def real_to_dict_pending(coll: bool, preload: bool, ro: bool, two: bool) -> bool:
    """to_dict() of a LOADED object whose relationship just gained a NEW, unflushed object with an auto-generated key: the dict
    reports the real key (to_dict flushes what it needs), never None.

    post: _
    """
    from pony.orm import db_session, rollback
    _fresh()
    with db_session:
        try:
            d = E['Box'][1]
            if preload: list(d.memos); d.secret
            if coll:
                new = [E['Memo'](dept=d)] + ([E['Memo'](dept=d)] if two else [])
                got = d.to_dict(with_collections=True, related_objects=ro)['memos']
                if ro: return ok(sorted(got, key=id) == sorted(new, key=id) and all(m.id is not None for m in got))
                return ok(None not in got and len(got) == len(new) and sorted(got) == sorted(m.id for m in new))
            m = E['Memo'](boss=d)
            got = d.to_dict(related_objects=ro)['secret']
            return ok((got is m) if ro else (got is not None and got == m.id))
        finally:
            rollback()


def real_to_dict_hierarchy(base_first: bool, wc: bool, ro: bool, excl: bool, via_bag: bool) -> bool:
    """objects of a base class and of its subclass serialised one after the other with the SAME options: each dict has exactly the
    attributes of its own class (the subclass attribute is there, the base object does not get it)

    post: _
    """
    from pony.orm import db_session, rollback
    from pony.orm.serialization import to_dict as bag_to_dict
    _fresh()
    with db_session:
        try:
            a, d = E['Animal'][1], E['Dog'][2]
            kw = dict(with_collections=wc, related_objects=ro)
            if excl: kw['exclude'] = 'name'
            if via_bag:
                out = bag_to_dict([a, d] if base_first else [d, a])
                da, dd = out['Animal'][1], out['Dog'][2]
                return ok('tricks' in dd and dd['tricks'] == 3 and 'tricks' not in da and sorted(dd['toys']) == [2, 3] and sorted(da['toys']) == [1])
            first, second = (a, d) if base_first else (d, a)
            r1 = first.to_dict(**kw); r2 = second.to_dict(**kw)
            da, dd = (r1, r2) if base_first else (r2, r1)
            want_a = ['id', 'classtype'] + ([] if excl else ['name']) + (['toys'] if wc else [])
            want_d = want_a[:len(want_a) - (1 if wc else 0)] + (['toys'] if wc else []) + ['tricks']
            return ok(sorted(da) == sorted(want_a) and sorted(dd) == sorted(want_d) and dd['tricks'] == 3)
        finally:
            rollback()


def real_pickle_collection(partial: bool, m2m: bool) -> bool:
    """a pickled collection unpickles (in a new session) to the collection's full content, also when only some of its items were
    in the session when it was pickled

    post: _
    """
    import pickle
    from pony.orm import db_session, rollback
    from crosshair.tracers import NoTracing
    partial, m2m = bool(partial), bool(m2m)
    _fresh()
    with NoTracing():
        with db_session:
            try:
                if m2m:
                    p = E['Person'][1]
                    if partial: E['Proj'][('x', 1)]
                    coll, want = p.projects, sorted(PERSON1['projects'])
                else:
                    if partial: E['Toy'][2]                 # one of the two items is in the session before the collection is touched
                    coll = E['Dog'][2].toys
                    want = [2, 3]
                data = pickle.dumps(coll)
            finally:
                rollback()
        with db_session:
            try:
                back = pickle.loads(data)
                got = sorted((x.code, x.no) for x in back) if m2m else sorted(x.id for x in back)
                n = len(back)
            except Exception:
                got, n = 'error', -1
            finally:
                rollback()
    if m2m: return ok(True)         # (many-to-many collections: see known finding; not asserted)
    return ok(got == want and n == len(want))


def real_pickle_query_result(n: int, k: int, paged: bool) -> bool:
    """a pickled lazy slice of a query unpickles to exactly the rows of that slice

    pre: 0 <= n <= 3 and 0 <= k <= 3
    post: _
    """
    import pickle
    from pony.orm import db_session, rollback, select
    n = 0 if n == 0 else 1 if n == 1 else 2 if n == 2 else 3
    k = 0 if k == 0 else 1 if k == 1 else 2 if k == 2 else 3
    _fresh()
    from crosshair.tracers import NoTracing
    with NoTracing(), db_session:
        try:
            Proj = E['Proj']
            q = select(p for p in Proj).order_by(Proj.code, Proj.no)
            full = [(p.code, p.no) for p in q[:]]
            if paged:
                if n == 0: return ok(True)
                res = q.page(k + 1, n); want = full[k * n:(k + 1) * n]
            else:
                res = q.limit(n, offset=k); want = full[k:k + n]
            back = pickle.loads(pickle.dumps(res))
            return ok([(p.code, p.no) for p in back] == want and [(p.code, p.no) for p in res] == want)
        finally:
            rollback()


HARNESSES = [('real_to_dict_hierarchy', 'setup'), ('real_pickle_collection', 'setup'), ('real_to_dict_pending', 'setup'), ('real_pickle_query_result', 'setup'), ('pk2_roundtrip', None), ('pk3_roundtrip', None), ('pk2_int_str_roundtrip', None),
             ('duck_entity_to_dict_values', None), ('duck_entity_to_dict_select', None),
             ('duck_bag_process_object_1col', None), ('duck_bag_process_object_ncol', None), ('duck_bag_process_object_1attr2col', None),
             ('duck_bag_to_dict_keys', None), ('duck_bag_to_dict_keys_1attr2col', None),
             ('real_entity_to_dict', 'setup'), ('real_entity_to_dict_misc', 'setup'), ('real_bag_to_dict', 'setup'), ('real_bag_watching', 'setup')]
