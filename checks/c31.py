"""C31 (partial) - serialised objects: composite keys are encoded distinctly; to_dict / the serialisation bag select the
documented values.

Deciding step: CrossHair symbolic execution (checks/h_c31.py) of the real `Bag._reduce_composite_pk` (decoder round trip
over symbolic key parts), of the real `Entity.to_dict`, `EntityMeta._get_attrs_`, `Bag._process_object`, `Bag.to_dict` on
duck-typed attributes with symbolic attribute kinds / key shapes / key values / options, and of the same functions on
real entities loaded from SQLite with symbolic options.

Outside (as in DESIGN.md): pickling (`pickle` is C code) and "reflects the current state" across session histories.

On top, not solver-quantified ('structural' / 'concrete-tie'): the four key shapes of the duck model exist in a real
model with the flags the duck model assumes; hand-encoded fixture keys agree with the real encoder; `to_json` is
`to_dict` rendered by json; public-API reproduction of the finding.
"""
import os

from engine.core import Report, Ob, HOLDS, CEX
from engine import ch

K_1ATTR = 'bag-collection-key-of-single-attribute-multi-column-pk'
EXPECTED_RED = ('duck_bag_process_object_1attr2col', 'duck_bag_to_dict_keys_1attr2col', 'real_bag_watching')


def classify(spec, cex):
    if spec['fn'] in EXPECTED_RED:
        return K_1ATTR
    return None


def run(tier, seed, only=None):
    if tier == 'thorough':
        os.environ['C31_N2'] = '3'; os.environ['C31_N3'] = '2'        # read by checks/h_c31.py in the worker processes
    from pony.orm import core, serialization as ser
    from checks import h_c31 as h
    rep = Report('C31', 'other',
                 'CrossHair symbolic execution of the real Bag._reduce_composite_pk (symbolic key parts; a reference decoder '
                 'applied to the real encoding must return the parts, which makes the encoding injective), and of the real '
                 'Entity.to_dict / EntityMeta._get_attrs_ / Bag._process_object / Bag.to_dict on duck-typed attributes (symbolic '
                 'attribute kinds, key shapes, key values, None, options) and on real SQLite-loaded entities (symbolic options), '
                 'against a reference statement of the documented selection rules. Pickling and histories are outside.')
    rep.fn(ser.Bag._reduce_composite_pk, ser.Bag._process_object, ser.Bag.to_dict, ser.Bag.config, ser.Bag.put, ser.Bag._put_object,
           core.Entity.to_dict, core.EntityMeta._get_attrs_, core.Entity._get_raw_pkval_)
    T = 150 if tier == 'quick' else 900
    specs = [dict(module='checks.h_c31', fn=f, cond_timeout=T, path_timeout=T / 2, **({'setup': su} if su else {})) for f, su in h.HARNESSES]
    if only: specs = [s for s in specs if only in s['fn']]
    rep.bounds = {'key parts': 'two parts: len <= %d, three parts: len <= %d, alphabet %r; mixed int/str: int in %r, str len <= %d'
                               % (h.N2, h.N3, h.ALPHA, h.INTVALS, h.N2),
                  'duck model': 'object with attributes a (plain, symbolic int), b (plain, optionally lazy), r (to-one, optionally None), '
                                's (to-many, 1-2 items); related key shapes (attributes, columns) %r; key column values unbounded ints '
                                '(%r where a key is rendered to text; 0..1 in the whole-Bag.to_dict harnesses, whose result dictionaries hash the keys)' % (h.PK_SHAPES, h.KEYVALS),
                  'options': 'with_collections, with_lazy, related_objects, only (subset of 3 names, or absent), exclude (subset of 1-2 names), '
                             'only/exclude as list or as text with blank or comma separators',
                  'real model': 'Dept(1 key attr/1 col), Proj(2/2, string parts with , and *), ProjDetail(1/2), Task(2/3), Person with lazy, '
                                'to-one (set / None) and to-many attributes; fixed rows'}
    rep.assumptions = ['duck-typed attributes/objects expose only the members the serialisers read; their key flags follow core.py '
                       '(_pk_is_composite_ = more than one key ATTRIBUTE, _pk_columns_ = key COLUMNS) - tied to a real model structurally',
                       'an empty `only`/`exclude` list is mapped to None (to_dict(only=[]) raises TypeError: unhashable cache key)',
                       'EntityMeta._attrnames_cache_ cleared at the start of every path; pony.orm.core.time replaced by a constant',
                       'to-one values inside a Bag are the raw key (tuple for several columns), as implemented; only collection keys are '
                       'held to "can be looked up in the same output"']
    rep.trusted = ['crosshair-tool 0.0.110', 'z3', 'ref_decode and the reference selection rules in checks/h_c31.py', 'sqlite3 (concrete loads only)']
    ch.run_harnesses(rep, specs, classify)
    if not only or only == 'tie':
        ties(rep, h)
    return rep


REPRO = '''# C31 finding, public API only: run with /verif/.venv/bin/python
from pony.orm import *
from pony.orm.serialization import to_dict
db = Database()
class A(db.Entity):
    a = Required(int); b = Required(int)
    PrimaryKey(a, b)
    d = Optional('D')
class D(db.Entity):
    a = PrimaryKey(A)          # one key attribute, two key columns
    owner = Required('O')
class O(db.Entity):
    id = PrimaryKey(int)
    ds = Set(D)
db.bind('sqlite', ':memory:')
db.generate_mapping(create_tables=True)
with db_session:
    o = O(id=1)
    D(a=A(a=1, b=2), owner=o); D(a=A(a=1, b=3), owner=o)
with db_session:
    out = to_dict(O[1])
    listed, filed = out['O'][1]['ds'], sorted(out['D'])
    print('keys listed for O[1].ds :', listed)
    print('keys of the D section   :', filed)
    raise SystemExit(0 if sorted(listed) == filed else 1)
'''


def ties(rep, h):
    import json
    from pony.orm import db_session, serialization as ser
    h.setup()
    E = h.E
    # 1. the key shapes of the duck model exist, with the flags the duck model derives from (attributes, columns)
    real_shapes = {'Dept': (1, 1), 'ProjDetail': (1, 2), 'Proj': (2, 2), 'Task': (2, 3)}
    wrong = []
    for ename, (n_attrs, n_cols) in real_shapes.items():
        e = E[ename]
        duck = h.DuckRelEntity(ename, n_attrs, n_cols)
        if (len(e._pk_attrs_), len(e._pk_columns_)) != (n_attrs, n_cols): wrong.append('%s has key shape %r' % (ename, (len(e._pk_attrs_), len(e._pk_columns_))))
        if e._pk_is_composite_ != duck._pk_is_composite_: wrong.append('%s._pk_is_composite_ = %r' % (ename, e._pk_is_composite_))
        with db_session:
            for o in e.select():
                if len(o._get_raw_pkval_()) != n_cols: wrong.append('%r raw key %r' % (o, o._get_raw_pkval_()))
    missing = [s for s in h.PK_SHAPES if s not in real_shapes.values()]
    if missing: wrong.append('duck shapes without a real example: %r' % missing)
    rep.add(Ob('structural:duck key shapes exist in a real model', 'structural', HOLDS if not wrong else CEX, detail='; '.join(wrong),
               cex={'wrong': wrong} if wrong else None, reproduced=True if wrong else None))
    # 2. hand-encoded fixture keys: decode back, and equal what the real Bag files Proj objects under
    with db_session:
        out = ser.to_dict(E['Proj'].select()[:])
        bad = [k for k, enc in h.PROJ_KEY.items() if h.ref_decode(enc) != [str(p) for p in k]]
        rep.add(Ob('tie:fixture keys decode to their tuples', 'concrete-tie', HOLDS if not bad else CEX, cex={'keys': bad} if bad else None,
                   reproduced=True if bad else None))
        same = sorted(out['Proj'].keys()) == sorted(h.PROJ_KEY.values())
        rep.add(Ob('tie:real Bag files Proj objects under the hand-encoded keys', 'concrete-tie', HOLDS if same else CEX,
                   detail='%r vs %r' % (sorted(out['Proj'].keys()), sorted(h.PROJ_KEY.values())),
                   cex=None if same else {'bag': sorted(out['Proj'].keys())}, reproduced=None if same else True))
    # 3. to_json is to_dict rendered by json (keys become text)
    with db_session:
        people = E['Person'].select().order_by(1)[:]
        d = ser.to_dict(people)
        j = json.loads(ser.to_json(people))
        def textkeys(x):
            if isinstance(x, dict): return {str(k): textkeys(v) for k, v in x.items()}
            if isinstance(x, (list, tuple)): return [textkeys(v) for v in x]
            return x
        same = j == textkeys(d)
        rep.add(Ob('tie:to_json equals to_dict rendered by json', 'concrete-tie', HOLDS if same else CEX,
                   cex=None if same else {'to_json': j, 'to_dict': repr(d)}, reproduced=None if same else True))
    # 4. Entity.to_dict and the Bag agree on which keys a collection of a 1-attribute/2-column entity has (public API)
    with db_session:
        p = E['Person'][1]
        ent = p.to_dict(only=['watching'])['watching']
        out = ser.to_dict(p)
        listed, filed = out['Person'][1]['watching'], sorted(out['ProjDetail'])
        good = sorted(listed) == filed
        rep.add(Ob('tie:Bag lists Person.watching under the keys of its ProjDetail section', 'concrete-tie', HOLDS if good else CEX,
                   detail='Entity.to_dict: %r; Bag lists %r; ProjDetail section keys %r' % (ent, listed, filed),
                   cex=None if good else {'entity_to_dict': repr(ent), 'bag_listed': listed, 'bag_section_keys': filed},
                   reproduced=None if good else True, key=None if good else K_1ATTR, replay=REPRO))
