"""CrossHair harnesses for C18 - a db_session commits exactly when its body succeeds.

What runs: the REAL `DBSessionContextManager` (`__init__`, `__call__`, `__enter__`, `_enter`, `__exit__`,
`_commit_or_rollback`, `_wrap_function`, `_wrap_coroutine_or_generator_function`), the real module-level `commit()` /
`rollback()` / `_get_caches()`, the real `SessionCache` (connect / flush / commit / rollback / release / close), the real
`SQLiteProvider` transaction handling, the real `pony.flask._enter_session/_exit_session/Pony` and the real
`pony.orm.integration.bottle_plugin.PonyPlugin`, over a real `Database` bound through `pony_pool_mockup` to a small
*transactional model of a DB-API connection* (`Conn` below): `BEGIN` opens a transaction, an `INSERT` goes to the pending
list inside a transaction and straight to the committed list outside one (SQLite autocommit), `commit()` moves pending
rows to committed, `rollback()` discards them.  "Database contents after the session" is `Conn.committed`.

Each body execution number i writes twice: a raw `db.execute('INSERT r<i>')` (sent to the connection at once) and a new
entity object `Row(id=i)` (sent only when the cache is flushed by commit), so both "changes already on the connection" and
"changes still in the session cache" are observed.

Symbolic (CrossHair): the retry count, the outcome code of every attempt (return / raise a class from a small lattice /
raise with `should_retry` set), option flags (immediate, serializable, strict, optimistic, ddl), whether the caller
catches, nesting shape, generator shape (number of yields, commit-before-yield, where it raises, what the consumer
does), the outcome of the Flask view and the Bottle callback.  Whether allowed_exceptions / retry_exceptions are tuples
or callables is split over separate harness functions (one worker process each).

Reference rule (stated here, not copied from pony):
  * decorator: attempts are executed one after the other; an attempt is re-run only if it failed with a retryable
    exception (class listed in / accepted by retry_exceptions, or the instance carries should_retry=True) and fewer than
    `retry` re-runs happened; every attempt starts with nothing pending, nothing of an earlier attempt committed and a
    fresh session state; after the call the committed rows are exactly the rows of the last attempt if it returned or
    raised an allowed, non-retryable exception, and no rows at all otherwise; the caller sees the last attempt's return
    value or exception object.
    (Interpretation recorded: an exception that is BOTH retryable and allowed is treated as retryable by the decorator -
    the property text only says "commits only if ... allowed", so rolling such an attempt back does not contradict it.)
  * context manager: committed rows = the body's rows iff the body finished or raised an allowed exception (there is no
    retry classification); `retry != 0` is refused before the body runs.
  * nested sessions: nothing is committed while an inner session exits (whatever the inner options say, whatever the
    inner body raised); the outermost exit decides by the OUTER options and by what reaches the outer body's end.
  * generator: rows written in a segment are committed iff the segment ended with an explicit commit() or with the
    generator finishing normally; a segment ended by any exception (including one thrown in by the consumer, close(), or
    pony's own "commit before suspending" error) commits nothing; the exception reaches the consumer; no session state
    is left while the generator is suspended.
  * Flask: request committed iff the view finished without an unhandled exception (teardown got None).
  * Bottle: committed iff the callback returned or raised an HTTPResponse that is not an HTTPError.
After every scenario: `local.db_session is None`, the context counter is 0, `local.db2cache` is empty, nothing pending on
the connection, the SQLite transaction lock is free.

Deviations from DESIGN.md C18: the "fake cache object" was replaced by the real SessionCache over a transactional
connection model (stronger: real commit()/rollback()/flush run); retry bound is 3 in the quick tier only for the
tuple/tuple configuration and 2 for the three configurations involving a callable (3 everywhere in the thorough tier,
4 for tuple/tuple; the thorough tier also adds the outcome "allowed exception carrying should_retry" and generators
with 3 yields); the nesting product did not confirm as one harness in 150 s and is split into three harness functions
(decorated-in-with, decorated-in-decorated, with-in-with / three levels); BaseException-only outcomes (KeyboardInterrupt, GeneratorExit raised by the body itself) are not
symbolic because a CrossHair harness may only catch Exception.
"""
import os, sys, types, warnings
from engine.ch import ok

R_TT = int(os.environ.get('C18_R_TT', '3'))      # retry bound, tuple/tuple configuration
R_C = int(os.environ.get('C18_R_C', '2'))        # retry bound, configurations with a callable
NCODES = int(os.environ.get('C18_NCODES', '6'))  # 7 adds C_EASR (thorough tier)
G_Y = int(os.environ.get('C18_G_Y', '2'))        # generator: max number of yields

STUBBED = []
db = Row = conn = core = local = db_session = None
pony_flask = bottle_plugin = bottle = HTTPBoth = HTTPRedirect = None


# ------------------------------------------------------------------------------------------------ exception lattice
class A(Exception): pass                 # root of the allowed family
class R(Exception): pass                 # root of the retryable family
class EA(A): pass                        # allowed only
class ER(R): pass                        # retryable only
class EO(Exception): pass                # neither
class EAR(EA, ER): pass                  # ancestors in both families (passes db_session's "same class in both lists" check)
class Boom(Exception): pass              # raised by a misbehaving allowed_exceptions callable

RET, C_EA, C_ER, C_EO, C_EAR, C_SR, C_EASR = range(7)   # C_SR / C_EASR: EO / EA instance carrying should_retry = True


def is_allowed(e): return isinstance(e, A)
def is_retry(e): return isinstance(e, R)
def allowed_raises(e):
    if isinstance(e, A): return True
    raise Boom()


def ref_allowed(code): return code in (C_EA, C_EAR, C_EASR)
def ref_retryable(code): return code in (C_ER, C_EAR, C_SR, C_EASR)


def rows(i): return ['INSERT r%d' % i, ('Row', i)]


# ------------------------------------------------------------------------------------------------ connection model
class Cur(object):
    description = []
    rowcount = 1
    arraysize = 1
    lastrowid = None
    def __init__(self, con): self.con = con
    def execute(self, sql, args=None):
        con = self.con
        con.calls += 1
        if sql.startswith('BEGIN'):
            con.in_tx = True
        elif sql.startswith('INSERT'):
            tag = sql if sql.startswith('INSERT r') else ('Row', args[0])
            (con.pending if con.in_tx else con.committed).append(tag)
    def executemany(self, sql, args=None): pass
    def fetchone(self): return None
    def fetchmany(self, size=None): return []
    def fetchall(self): return []
    def close(self): pass


class Conn(object):
    def __init__(self): self.reset()
    def reset(self):
        self.in_tx = False
        self.pending = []
        self.committed = []
        self.n_commit = 0
        self.n_rollback = 0
        self.calls = 0
    def cursor(self): return Cur(self)
    def commit(self):
        self.n_commit += 1
        self.committed.extend(self.pending)
        self.pending = []
        self.in_tx = False
    def rollback(self):
        self.n_rollback += 1
        self.pending = []
        self.in_tx = False
    def close(self): pass


class Pool(object):
    def __init__(self, con): self.con = con; self.held = 0
    def connect(self):
        self.held += 1
        return self.con, False
    def release(self, con):
        self.held -= 1
        con.rollback()                   # as the real SQLitePool.release does
    def drop(self, con): self.held -= 1
    def disconnect(self): pass


# ------------------------------------------------------------------------------------------------ framework stand-ins
class StubFlaskApp(object):
    """Stand-in for the part of flask.Flask the integration touches, following Flask's documented request protocol
    (wsgi_app): before_request functions, the view, then - always - the teardown_request functions, which receive the
    unhandled exception or None."""
    def __init__(self):
        self.before, self.teardown = [], []
    def before_request(self, f): self.before.append(f); return f
    def teardown_request(self, f): self.teardown.append(f); return f
    def handle(self, view):
        error = None
        try:
            for f in self.before: f()
            return view()
        except Exception as e:
            error = e
            raise
        finally:
            for f in reversed(self.teardown): f(error)


def _install_framework_stubs():
    try:
        import flask  # noqa
    except ImportError:
        m = types.ModuleType('flask')
        m.request = types.SimpleNamespace()
        m.Flask = StubFlaskApp
        sys.modules['flask'] = m
        STUBBED.append('flask')
    try:
        import bottle  # noqa
    except ImportError:
        m = types.ModuleType('bottle')
        class HTTPResponse(Exception): pass          # bottle: class HTTPResponse(Response, BottleException)
        class HTTPError(HTTPResponse): pass          # bottle: class HTTPError(HTTPResponse)
        m.HTTPResponse, m.HTTPError = HTTPResponse, HTTPError
        sys.modules['bottle'] = m
        STUBBED.append('bottle')


def setup():
    global db, Row, conn, core, local, db_session, pony_flask, bottle_plugin, bottle, HTTPBoth, HTTPRedirect
    if db is not None:
        return
    _install_framework_stubs()
    import bottle
    class HTTPBoth(bottle.HTTPError, EA): pass
    class HTTPRedirect(bottle.HTTPResponse): pass
    import importlib
    from pony.orm import core as _core
    from pony.orm import Database, PrimaryKey
    from pony.orm.dbproviders.sqlite import SQLiteProvider
    core, local, db_session = _core, _core.local, _core.db_session
    core.time = lambda: 0.0                      # QueryStat reads the clock; CrossHair wants determinism
    core.log_sql = lambda sql, arguments=None: None      # sql_debug=True sessions would print every statement
    core.log_orm = lambda msg: None
    import pony.orm.dbproviders.sqlite as _ps, pony.orm.dbapiprovider as _dp
    for _m in (_ps, _dp):
        if hasattr(_m, 'log_orm'): _m.log_orm = lambda msg: None
        if hasattr(_m, 'log_sql'): _m.log_sql = lambda sql, arguments=None: None
    warnings.simplefilter('ignore', core.PonyRuntimeWarning)
    pony_flask = importlib.import_module('pony.flask')
    bottle_plugin = importlib.import_module('pony.orm.integration.bottle_plugin')

    class VerifProvider(SQLiteProvider):
        json1_available = False
        server_version = (3, 35, 0)
        def inspect_connection(provider, connection): pass
    VerifProvider.__name__ = 'SQLiteProvider'
    conn = Conn()
    db = Database()
    db._bind(VerifProvider, ':memory:', pony_pool_mockup=Pool(conn))

    class Row(db.Entity):
        id = PrimaryKey(int)
    globals()['Row'] = Row
    db.generate_mapping(check_tables=False)
    # warm the per-database SQL caches with one committed and one rolled back session
    _begin()
    with db_session:
        write(0)
    _begin()
    try:
        with db_session:
            write(0)
            raise EO()
    except EO:
        pass
    _begin()


def _begin():
    """Start of every explored path: no session state left over, empty connection model."""
    if local.db2cache:
        try: core.rollback()
        except Exception: pass
    local.db2cache.clear()
    local.db_session = None
    local.db_context_counter = 0
    prov = db.provider
    if prov.transaction_lock.locked(): prov.transaction_lock.release()
    db.provider.pool.held = 0
    conn.reset()


def write(i):
    db.execute('INSERT r%d' % i)         # reaches the connection immediately (opens the transaction)
    Row(id=i)                            # stays in the session cache until a flush


def throw_code(code, i, raised):
    if code == C_EA: e = EA(i)
    elif code == C_ER: e = ER(i)
    elif code == C_EO: e = EO(i)
    elif code == C_EAR: e = EAR(i)
    elif code == C_SR:
        e = EO(i)
        e.should_retry = True
    else:
        e = EA(i)
        e.should_retry = True
    raised.append(e)
    raise e


def clean_after(check_held=True):
    return (local.db_session is None and local.db_context_counter == 0 and not local.db2cache
            and conn.pending == [] and not conn.in_tx and not db.provider.transaction_lock.locked()
            and (db.provider.pool.held == 0 or not check_held))


def fresh_inside(sess):
    """State a body must find when an (outermost) attempt starts."""
    return (local.db_session is sess and local.db_context_counter == 1 and not local.db2cache
            and conn.pending == [] and not conn.in_tx and conn.committed == [])


# ------------------------------------------------------------------------------------------------ decorator + retry
def _retry(aform, rform, retry, codes, rbound):
    _begin()
    kw = {'allowed_exceptions': is_allowed if aform else (A,),
          'retry_exceptions': is_retry if rform else (R,)}
    sess = db_session(retry=retry, **kw)
    fresh, raised = [], []

    def body(x, y=0):
        i = len(fresh)
        fresh.append(fresh_inside(sess) and x == 7 and y == 9)
        write(i)
        if codes[i] == RET: return ('ret', i)
        throw_code(codes[i], i, raised)

    wrapped = sess(body)
    res = exc = None
    try: res = wrapped(7, y=9)
    except Exception as e: exc = e

    # reference
    n = 1
    while n <= retry and ref_retryable(codes[n - 1]): n += 1
    last = codes[n - 1]
    if last == RET:
        exp_rows, exp_res, exp_exc = rows(n - 1), ('ret', n - 1), False
    elif ref_allowed(last) and not ref_retryable(last):
        exp_rows, exp_res, exp_exc = rows(n - 1), None, True
    else:
        exp_rows, exp_res, exp_exc = [], None, True
    good = (len(fresh) == n and all(fresh) and conn.committed == exp_rows and res == exp_res
            and ((exc is None and len(raised) == n - 1) if not exp_exc else (len(raised) == n and exc is raised[-1]))
            and clean_after() and wrapped.__name__ == 'body')
    return ok(good)


def retry_tuple_tuple(retry: int, c0: int, c1: int, c2: int, c3: int, c4: int) -> bool:
    """
    pre: 0 <= retry <= R_TT
    pre: 0 <= c0 < NCODES and 0 <= c1 < NCODES and 0 <= c2 < NCODES and 0 <= c3 < NCODES and 0 <= c4 < NCODES
    post: _
    """
    return _retry(False, False, retry, [c0, c1, c2, c3, c4], R_TT)


def retry_callable_tuple(retry: int, c0: int, c1: int, c2: int, c3: int) -> bool:
    """
    pre: 0 <= retry <= R_C
    pre: 0 <= c0 < NCODES and 0 <= c1 < NCODES and 0 <= c2 < NCODES and 0 <= c3 < NCODES
    post: _
    """
    return _retry(True, False, retry, [c0, c1, c2, c3], R_C)


def retry_tuple_callable(retry: int, c0: int, c1: int, c2: int, c3: int) -> bool:
    """
    pre: 0 <= retry <= R_C
    pre: 0 <= c0 < NCODES and 0 <= c1 < NCODES and 0 <= c2 < NCODES and 0 <= c3 < NCODES
    post: _
    """
    return _retry(False, True, retry, [c0, c1, c2, c3], R_C)


def retry_callable_callable(retry: int, c0: int, c1: int, c2: int, c3: int) -> bool:
    """
    pre: 0 <= retry <= R_C
    pre: 0 <= c0 < NCODES and 0 <= c1 < NCODES and 0 <= c2 < NCODES and 0 <= c3 < NCODES
    post: _
    """
    return _retry(True, True, retry, [c0, c1, c2, c3], R_C)


def retry_default_exceptions(retry: int, c0: int, c1: int, c2: int) -> bool:
    """Default retry_exceptions (TransactionError) and default allowed_exceptions (none): outcome codes
    0 return, 1 raise OptimisticCheckError (a TransactionError), 2 raise EO, 3 raise EO with should_retry.

    pre: 0 <= retry <= 2
    pre: 0 <= c0 < 4 and 0 <= c1 < 4 and 0 <= c2 < 4
    post: _
    """
    _begin()
    codes = [c0, c1, c2]
    sess = db_session(retry=retry)
    fresh, raised = [], []

    def body():
        i = len(fresh)
        fresh.append(fresh_inside(sess))
        write(i)
        c = codes[i]
        if c == 0: return i
        e = core.OptimisticCheckError(i) if c == 1 else EO(i)
        if c == 3: e.should_retry = True
        raised.append(e)
        raise e

    wrapped = sess(body)
    res = exc = None
    try: res = wrapped()
    except Exception as e: exc = e
    n = 1
    while n <= retry and codes[n - 1] in (1, 3): n += 1
    if codes[n - 1] == 0:
        good = conn.committed == rows(n - 1) and res == n - 1 and exc is None
    else:
        good = conn.committed == [] and res is None and exc is raised[-1]
    return ok(good and len(fresh) == n and all(fresh) and clean_after())


# ------------------------------------------------------------------------------------------------ context manager
def context_manager(code: int, aform: int, immediate: bool, serializable: bool, strict: bool, optimistic: bool) -> bool:
    """`with db_session(options):` - aform 0: allowed tuple, 1: allowed list, 2: callable, 3: callable that raises Boom
    for a non-allowed exception.

    pre: 0 <= code < NCODES
    pre: 0 <= aform <= 3
    post: _
    """
    _begin()
    allowed = ((A,), [A], is_allowed, allowed_raises)[aform]
    sess = db_session(allowed_exceptions=allowed, immediate=immediate, serializable=serializable, strict=strict,
                      optimistic=optimistic)
    raised, seen = [], []
    exc = None
    try:
        with sess:
            seen.append(fresh_inside(sess))
            write(0)
            if code != RET: throw_code(code, 0, raised)
    except Exception as e:
        exc = e
    if code == RET:
        good = conn.committed == rows(0) and exc is None
    elif ref_allowed(code):
        good = conn.committed == rows(0) and exc is raised[0]
    elif aform == 3:
        good = conn.committed == [] and isinstance(exc, Boom)       # the classifier's own failure propagates
    else:
        good = conn.committed == [] and exc is raised[0]
    return ok(good and seen == [True] and clean_after())


def context_manager_refusals(retry: int, ddl: bool, as_decorator: bool, code: int) -> bool:
    """Option combinations that must be refused before the body runs (nothing executed, nothing committed):
    retry on a context manager, negative retry, retry together with ddl.  With a valid combination the session
    behaves as usual (ddl sessions included).

    pre: -1 <= retry <= 1
    pre: code == RET or code == C_EO
    post: _
    """
    _begin()
    ran, raised = [], []
    exc = None
    def body():
        ran.append(1)
        write(0)
        if code != RET: throw_code(code, 0, raised)
    try:
        sess = db_session(retry=retry, ddl=ddl)
        if as_decorator: sess(body)()
        else:
            with sess: body()
    except Exception as e:
        exc = e
    refused = retry < 0 or (retry > 0 and (ddl or not as_decorator))
    if refused:
        good = ran == [] and conn.committed == [] and isinstance(exc, TypeError) and conn.calls == 0
    elif code == RET:
        good = ran == [1] and conn.committed == rows(0) and exc is None
    else:
        # EO is not retryable: exactly one execution whatever `retry` says
        good = ran == [1] and conn.committed == [] and exc is raised[0]
    return ok(good and clean_after())


# ------------------------------------------------------------------------------------------------ nesting
def _nested(outer_decorator, inner_kind, inner_retry, inner_flag, inner_code, catch, outer_code, outer_serializable):
    """Outer session (decorator or with-block, allowed=(A,)) whose body writes row 0, runs an inner session that writes
    row 1 and ends with `inner_code`, optionally catches what the inner raised, writes row 2 and ends with `outer_code`.
    inner_kind 0: decorated function, 1: with-block, 2: with-block two levels deep.  inner_flag 0: plain,
    1: inner allows every Exception (must not make the inner exit commit), 2: inner serializable (refused inside a
    non-serializable session: TransactionError raised in the outer body before the inner body runs), 3: inner ddl
    (refused likewise)."""
    _begin()
    ikw = {}
    if inner_flag == 1: ikw['allowed_exceptions'] = (Exception,)
    elif inner_flag == 2: ikw['serializable'] = True
    elif inner_flag == 3: ikw['ddl'] = True
    elif inner_flag == 4: ikw['sql_debug'] = True          # (options that take other paths through the decorator's nested-call shortcut)
    elif inner_flag == 5: ikw['sql_debug'] = False
    elif inner_flag == 6: ikw['immediate'] = True
    elif inner_flag == 7: ikw['strict'] = True
    if inner_retry: ikw['retry'] = inner_retry
    inner_sess = db_session(**ikw)
    outer_sess = db_session(allowed_exceptions=(A,), serializable=outer_serializable)
    raised, inner_runs, checks = [], [], []

    def inner_body():
        inner_runs.append(local.db_session is outer_sess)
        write(1)
        if inner_code != RET: throw_code(inner_code, 1, raised)
        return 'inner'

    def run_inner():
        if inner_kind == 0:
            return inner_sess(inner_body)()
        if inner_kind == 1:
            with inner_sess:
                return inner_body()
        with db_session:
            with inner_sess:
                return inner_body()

    def outer_body():
        write(0)
        try:
            try:
                run_inner()
            finally:
                # the inner exit must not have committed or rolled back anything and must have restored the nesting level
                checks.append(conn.committed == [] and conn.n_commit == 0 and conn.n_rollback == 0
                              and local.db_session is outer_sess and local.db_context_counter == 1
                              and conn.pending[:1] == ['INSERT r0'])
        except Exception as e:
            if not catch: raise
            checks.append(e)
        write(2)
        if outer_code != RET: throw_code(outer_code, 2, raised)
        return 'outer'

    res = exc = None
    try:
        if outer_decorator: res = outer_sess(outer_body)()
        else:
            with outer_sess: res = outer_body()
    except Exception as e:
        exc = e

    # (a *decorated* serializable function called inside a non-serializable session is not refused by pony, only the
    # with-block form is; the property does not speak about that, so the reference follows pony there)
    refused = (inner_flag == 2 and not outer_serializable and inner_kind != 0) or inner_flag == 3
    inner_failed = refused or inner_code != RET
    if refused:
        inner_exc_ok = inner_runs == [] and isinstance(checks[-1] if catch else exc, core.TransactionError)
    elif inner_code != RET:
        inner_exc_ok = inner_runs == [True] and (checks[-1] if catch else exc) is raised[0]
    else:
        inner_exc_ok = inner_runs == [True]
    if inner_failed and not catch:
        # the inner failure is what leaves the outer body: raised[0] (EA allowed, others not) or pony's TransactionError.
        # NB the decorator retries TransactionError by default with retry=0 -> still a single execution, rolled back.
        final_allowed = (not refused) and inner_code == C_EA
        exp = (rows(0) + rows(1)) if final_allowed else []
        good = conn.committed == exp and exc is not None and res is None
    else:
        exp = rows(0) + ([] if refused else rows(1)) + rows(2)
        if outer_code == RET:
            good = conn.committed == exp and exc is None and res == 'outer'
        elif outer_code == C_EA:
            good = conn.committed == exp and exc is raised[-1]
        else:
            good = conn.committed == [] and exc is raised[-1]
    return ok(good and inner_exc_ok and checks[0] is True and clean_after())


def nested_decorated_in_with(inner_retry: int, inner_flag: int, inner_code: int, catch: bool,
                             outer_code: int, outer_serializable: bool) -> bool:
    """Inner session = @db_session(retry=inner_retry, ...) function called inside `with db_session(...)` (see _nested).

    pre: 0 <= inner_retry <= 1
    pre: inner_retry == 0 or inner_flag != 3
    pre: 0 <= inner_flag <= 7
    pre: inner_code in (RET, C_EA, C_ER, C_EO)
    pre: outer_code in (RET, C_EA, C_EO)
    pre: inner_flag == 2 or not outer_serializable
    post: _
    """
    return _nested(False, 0, inner_retry, inner_flag, inner_code, catch, outer_code, outer_serializable)


def nested_decorated_in_decorated(inner_retry: int, inner_flag: int, inner_code: int, catch: bool,
                                  outer_code: int, outer_serializable: bool) -> bool:
    """Inner session = @db_session(retry=inner_retry, ...) function called from a @db_session function (see _nested).

    pre: 0 <= inner_retry <= 1
    pre: inner_retry == 0 or inner_flag != 3
    pre: 0 <= inner_flag <= 7
    pre: inner_code in (RET, C_EA, C_ER, C_EO)
    pre: outer_code in (RET, C_EA, C_EO)
    pre: inner_flag == 2 or not outer_serializable
    post: _
    """
    return _nested(True, 0, inner_retry, inner_flag, inner_code, catch, outer_code, outer_serializable)


def nested_with(outer_decorator: bool, deep: bool, inner_flag: int, inner_code: int, catch: bool,
                outer_code: int, outer_serializable: bool) -> bool:
    """Inner session = `with db_session(...)` inside the outer body, directly or (deep) inside a further plain
    `with db_session` (see _nested).

    pre: 0 <= inner_flag <= 7
    pre: inner_code in (RET, C_EA, C_ER, C_EO)
    pre: outer_code in (RET, C_EA, C_EO)
    pre: inner_flag == 2 or not outer_serializable
    post: _
    """
    return _nested(outer_decorator, 2 if deep else 1, 0, inner_flag, inner_code, catch, outer_code, outer_serializable)


def nested_serializable_refusal(outer_opt: int, deep: bool) -> bool:
    """`with db_session(serializable=True)` inside a session that is not serializable is refused (the outer session's transaction
    is already running at another level), whatever other options the outer session has.
    outer_opt: 0 plain, 1 immediate=True, 2 optimistic=False, 3 serializable=True (the only one that may accept), 4 strict=True

    pre: 0 <= outer_opt <= 4
    post: _
    """
    _begin()
    okw = {} if outer_opt == 0 else {'immediate': True} if outer_opt == 1 else {'optimistic': False} if outer_opt == 2 else {'serializable': True} if outer_opt == 3 else {'strict': True}
    refused = ran = False
    try:
        with db_session(**okw):
            write(0)
            try:
                if deep:
                    with db_session:
                        with db_session(serializable=True):
                            ran = True; write(1)
                else:
                    with db_session(serializable=True):
                        ran = True; write(1)
            except core.TransactionError:
                refused = True
    except Exception:
        return ok(False)
    want_refused = outer_opt != 3
    return ok(refused == want_refused and ran == (not want_refused) and conn.committed == (rows(0) if want_refused else rows(0) + rows(1)) and clean_after())


# ------------------------------------------------------------------------------------------------ generators
GEN_OPTIONS = {}          # extra db_session options of the generator harnesses (set by generator_options)
GEN_FLUSH = [False]       # segments that do not commit flush() before yielding


def generator(n_yields: int, commit_mask: int, raise_at: int, raise_code: int, action: int, action_at: int,
              aform: bool, cleanup_writes: bool) -> bool:
    """@db_session generator with `n_yields` yields.  Segment s (the code between yield s-1 and yield s) writes row s;
    bit s of commit_mask: the segment calls commit() before yielding; `raise_at` == s: segment s raises `raise_code`
    after writing.  Consumer: action 0 = just next(); 1 = send a value; 2 = throw EO into the suspended generator at
    step `action_at`; 3 = close() it at step `action_at`; 4 = the consumer itself is inside a db_session at step
    `action_at` (refused by pony, generator body does not advance).  `cleanup_writes`: the body's `finally:` around each
    yield writes row 90 when the generator is closed or thrown into while suspended - such clean-up writes belong to a
    session that did not succeed and must not be committed.

    pre: 0 <= n_yields <= G_Y
    pre: 0 <= commit_mask < 2 ** G_Y
    pre: -1 <= raise_at <= G_Y
    pre: raise_code in (C_EA, C_EO)
    pre: raise_at >= 0 or raise_code == C_EO
    pre: 0 <= action <= 4
    pre: 0 <= action_at <= G_Y - 1
    pre: action >= 2 or action_at == 0
    post: _
    """
    return _gen(n_yields, commit_mask, raise_at, raise_code, action, action_at, aform, cleanup_writes)


def _gen(n_yields, commit_mask, raise_at, raise_code, action, action_at, aform, cleanup_writes):
    _begin()
    raised, seg_log, got = [], [], []
    sess = db_session(allowed_exceptions=is_allowed if aform else (A,), **GEN_OPTIONS)

    def body(tag):
        for s in range(n_yields + 1):
            seg_log.append(s)
            write(s)
            if s == raise_at: throw_code(raise_code, s, raised)
            if s < n_yields:
                if commit_mask >> s & 1: core.commit()
                elif GEN_FLUSH[0]: core.flush()          # flushed but not committed: an open transaction, nothing 'modified'
                resumed = False
                try:
                    x = yield (tag, s)
                    resumed = True
                finally:
                    if cleanup_writes and not resumed: write(90)
                got.append(x)

    g = sess(body)
    it = g('t')
    exc = None
    outputs, suspended_clean, finished, closed = [], [], False, False
    step = 0
    thrown = None
    try:
        while True:
            if action == 2 and step == action_at + 1:
                thrown = EO('thrown')
                out = it.throw(thrown)
            elif action == 3 and step == action_at + 1:
                closed = True
                it.close()
                break
            elif action == 4 and step == action_at:
                with db_session:
                    out = next(it)
            elif action == 1 and step > 0:
                out = it.send(step)
            else:
                out = next(it)
            outputs.append(out)
            suspended_clean.append(local.db_session is None and local.db_context_counter == 0 and not local.db2cache)
            step += 1
    except StopIteration:
        finished = True
    except Exception as e:
        exc = e

    # reference: walk the segments
    exp_rows, exp_out, exp_exc, exp_fin = [], [], None, False
    s = 0
    while True:
        if action == 4 and s == action_at:
            exp_exc = 'TransactionError'; break
        # segment s runs
        if s == raise_at:
            exp_exc = 'raised'; break
        if s == n_yields:
            exp_rows += rows(s); exp_fin = True; break
        if not (commit_mask >> s & 1):
            exp_exc = 'TransactionError'; break          # "commit before suspending" - segment rolled back
        exp_rows += rows(s)
        exp_out.append(('t', s))
        if action == 2 and s == action_at:
            exp_exc = 'thrown'; break
        if action == 3 and s == action_at:
            break
        s += 1
    if exp_exc == 'TransactionError': exc_ok = isinstance(exc, core.TransactionError)
    elif exp_exc == 'raised': exc_ok = exc is raised[0]
    elif exp_exc == 'thrown': exc_ok = exc is thrown and thrown is not None
    else: exc_ok = exc is None
    rows_ok = conn.committed == exp_rows
    if exp_exc == 'raised' and raise_code == C_EA and not rows_ok:
        # the property permits (does not require) committing a segment that ended with an allowed exception
        rows_ok = conn.committed == exp_rows + rows(s)
    final_rows = list(conn.committed)
    # Observation outside C18 (connection release is C19): when a *suspended* generator is resumed from inside another
    # db_session pony refuses with TransactionError but never closes the cache it parked at the suspension, so that
    # connection is not handed back to the pool (no transaction is open on it).  Not asserted here.
    held = not (action == 4 and action_at > 0)
    good = (rows_ok and outputs == exp_out and finished == exp_fin and exc_ok
            and all(suspended_clean) and clean_after(held))
    if action == 1: good = good and got == list(range(1, len(got) + 1))
    # a finished / failed generator stays finished
    if exp_exc is not None or exp_fin:
        try:
            next(it); good = False
        except StopIteration: pass
        except Exception: good = False
        good = good and conn.committed == final_rows and clean_after(held)
    # leave no suspended generator behind: its `finally:` would otherwise run whenever the collector gets to it
    cw = cleanup_writes
    cleanup_writes = False
    try: it.close()
    except Exception: pass
    del it, g
    return ok(good)


def generator_options(opt: int, flush: bool, n_yields: int, commit_mask: int, raise_at: int, action: int, action_at: int) -> bool:
    """The generator scenario (see `generator`) for sessions with other options: opt 0 immediate=True, 1 optimistic=False,
    2 sql_debug=True, 3 strict=True, 4 no option; flush: a segment that does not commit calls flush() before it yields (an open
    transaction with nothing pending in memory).  A generator may only be suspended with nothing uncommitted whatever the options are
    (while it is suspended the caller can open its own session on the same connection).

    pre: 0 <= opt <= 4
    pre: 0 <= n_yields <= 2
    pre: 0 <= commit_mask < 4
    pre: -1 <= raise_at <= 2
    pre: action in (0, 3, 4)
    pre: 0 <= action_at <= 1
    pre: action >= 2 or action_at == 0
    post: _
    """
    GEN_OPTIONS.clear()
    GEN_OPTIONS.update({'immediate': True} if opt == 0 else {'optimistic': False} if opt == 1 else {'sql_debug': True} if opt == 2 else {'strict': True} if opt == 3 else {})
    GEN_FLUSH[0] = True if flush else False
    try:
        return _gen(n_yields, commit_mask, raise_at, C_EO, action, action_at, False, False)
    finally:
        GEN_OPTIONS.clear(); GEN_FLUSH[0] = False


def generator_refusals(retry: int, ddl: bool, serializable: bool) -> bool:
    """db_session options that cannot apply to a generator function are refused at decoration time.

    pre: 0 <= retry <= 1
    post: _
    """
    _begin()
    def body():
        write(0)
        yield 1
    try:
        g = db_session(retry=retry, ddl=ddl, serializable=serializable)(body)
        refused = False
    except TypeError:
        refused = True
    exp = bool(retry or ddl or serializable)
    good = refused == exp
    if not refused:
        # no commit before the yield -> pony refuses to suspend, rolls back
        try:
            next(g()); good = False
        except core.TransactionError: pass
        except Exception: good = False
    return ok(good and conn.committed == [] and clean_after())


# ------------------------------------------------------------------------------------------------ Flask
def flask_request(code: int, handled: bool, inner_decorated: bool) -> bool:
    """One request through the stand-in Flask app with the real Pony(app) hooks: before_request opens the session, the
    view writes row 0 and ends with `code`, teardown_request receives the unhandled exception (None when the view
    returned, or when an application error handler turned the exception into a response: `handled`).
    `inner_decorated`: the view is itself wrapped in @db_session (nested, must not change anything).

    pre: code in (RET, C_EA, C_EO, C_ER)
    post: _
    """
    _begin()
    app = StubFlaskApp()
    pony_flask.Pony(app)
    raised = []
    def view():
        write(0)
        if code != RET: throw_code(code, 0, raised)
        return 'response'
    v = db_session(view) if inner_decorated else view
    def dispatch():
        # Flask.full_dispatch_request: a registered error handler turns the exception into a response
        if not handled: return v()
        try: return v()
        except Exception: return 'error page'
    res = exc = None
    try: res = app.handle(dispatch)
    except Exception as e: exc = e
    failed = code != RET and not handled
    if failed:
        good = conn.committed == [] and exc is raised[0]
    else:
        good = conn.committed == rows(0) and exc is None and res == ('response' if code == RET else 'error page')
    return ok(good and clean_after())


# ------------------------------------------------------------------------------------------------ Bottle
def bottle_route(code: int, arg: int) -> bool:
    """PonyPlugin().apply(callback, route)(arg): code 0 return, 1 raise HTTPResponse (e.g. redirect: allowed),
    2 raise HTTPError, 3 raise EO, 4 raise a TransactionError (retryable by default, retry is 0), 5 raise a class
    deriving from both HTTPError and another base, 6 raise a subclass of HTTPResponse that is not an HTTPError.

    pre: 0 <= code <= 6
    post: _
    """
    _begin()
    raised, runs = [], []
    def callback(x, y=None):
        runs.append((x, y))
        write(0)
        if code == 0: return ('page', x)
        elif code == 1: e = bottle.HTTPResponse()
        elif code == 2: e = bottle.HTTPError()
        elif code == 3: e = EO()
        elif code == 4: e = core.OptimisticCheckError()
        elif code == 5: e = HTTPBoth()
        else: e = HTTPRedirect()
        raised.append(e)
        raise e
    plugin = bottle_plugin.PonyPlugin()
    wrapped = plugin.apply(callback, None)
    res = exc = None
    try: res = wrapped(arg, y='k')
    except Exception as e: exc = e
    if code == 0: good = conn.committed == rows(0) and res == ('page', arg) and exc is None
    elif code in (1, 6): good = conn.committed == rows(0) and exc is raised[0]
    else: good = conn.committed == [] and exc is raised[0]
    return ok(good and runs == [(arg, 'k')] and clean_after() and plugin.api == 2 and plugin.name == 'pony')


HARNESSES = ('nested_serializable_refusal', 'generator_options', 'retry_tuple_tuple', 'retry_callable_tuple', 'retry_tuple_callable', 'retry_callable_callable',
             'retry_default_exceptions', 'context_manager', 'context_manager_refusals', 'nested_decorated_in_with', 'nested_decorated_in_decorated', 'nested_with', 'generator',
             'generator_refusals', 'flask_request', 'bottle_route')
