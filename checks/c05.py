"""C05 - query, SQL and result caches are transparent.

(a) translator / constructed-SQL / AST / extractor caches: for each parametrised query program and each ordered pair of
    parameter vectors (v1, v2) that differ in value, in None-ness, in a value pinned into the SQL (string slice bounds) or in
    tuple length, the program is executed with v1 (cold) and then, on the SAME Database with every process-wide cache left
    warm, with v2; the E1 obligation (SQL text of the warm translation vs the Python-semantics oracle, all OTHER parameter
    values and all table contents symbolic) is decided by z3 for the warm run, and the warm SQL text must equal the text of
    a cold run with v2 (differential that localises a failure).  String and generator spellings; the generator spelling
    alternates two different code objects.
(b) raw-SQL adaptation caches: the two-step history harnesses of C30 (checks/h_c30.py) are run here as well.
"""
import ast, itertools, random
import z3
from engine.core import Report, Ob, HOLDS, CEX, REJECTED, INCONCLUSIVE, load_known
from engine import ch
from engine.symsql import e1, symdb
from engine.symsql.e1 import Program
from checks import c01

INT, STR = c01.INT, c01.STR

# (source, {name: [candidate (sort, value) ...]})
FAMILY = [
    ('(p for p in P if p.a > x)', {'x': [INT(1), INT(2), ('int', None)]}),
    ('(p for p in P if p.b == x)', {'x': [INT(1), ('int', None), INT(0)]}),
    ('(p for p in P if p.b != x)', {'x': [INT(1), ('int', None)]}),
    ('(p for p in P if p.u == y)', {'y': [STR('a'), ('str', None), STR('')]}),
    ('(p for p in P if p.s[:x] == y)', {'x': [INT(1), INT(2), INT(0), INT(-2)], 'y': [STR('a')]}),
    ('(p for p in P if p.s[x:] == y)', {'x': [INT(1), INT(2), INT(-1)], 'y': [STR('a')]}),
    ('(p.s[x] for p in P if len(p.s) > 2)', {'x': [INT(0), INT(1), INT(-1)]}),
    ('(p.s[x:z] for p in P)', {'x': [INT(0), INT(1)], 'z': [INT(2), INT(1), ('int', None)]}),
    ('(p for p in P if p.a in t)', {'t': [('tuple', (1, 2)), ('tuple', (1, 2, 3)), ('tuple', (5,))]}),
    ('(p for p in P if p.a not in t and p.b > x)', {'t': [('tuple', (1, 2)), ('tuple', (3,))], 'x': [INT(1), INT(2)]}),
    ('(p for p in P if p.s.startswith(y))', {'y': [STR('a'), STR('%'), STR('')]}),
    ('(p for p in P if y in p.s or p.a == x)', {'y': [STR('a'), STR('_')], 'x': [INT(1), ('int', None)]}),
    ('((p.a + x, p.id) for p in P if p.g.n == x)', {'x': [INT(1), INT(7)]}),
    ('(g for g in G if len(g.ps) > x)', {'x': [INT(0), INT(1)]}),
    ('(g for g in G if x in g.ps.a)', {'x': [INT(1), ('int', None)]}),
    ('(p for p in P if coalesce(p.b, x) == x)', {'x': [INT(1), INT(2)]}),
    ('(p for p in P if (p.a if p.f else x) > x)', {'x': [INT(1), INT(-1)]}),
]


# method-chain histories: (source, scope spec, [chain variants]) - every ordered pair of (vector, chain) combinations
CHAIN_FAMILY = [
    ('(p for p in P)', {'y': [STR('a'), ('str', None)]},
     [{'filters': ['lambda p: p.u == y'], 'final': ('list',)}]),
    ('(p for p in P)', {'x': [INT(1), ('int', None)]},
     [{'filters': ['lambda p: p.b == x', 'lambda p: p.a > 0'], 'final': ('list',)}]),
    ('(p for p in P if p.a > x)', {'x': [INT(1), INT(2)]},
     [{'order': [('p.id', False)], 'final': ('list',)}, {'order': [('p.id', False)], 'final': ('slice', 2, 2)}, {'order': [('p.id', False)], 'final': ('slice', 0, 1)},
      {'order': [('p.id', False)], 'final': ('limit', 0, None)}, {'order': [('p.id', False)], 'final': ('slice', 1, None)}, {'order': [('p.id', False)], 'final': ('limit', 2, 1)}]),
    ('(p.a for p in P)', {},
     [{'final': ('aggr', 'COUNT')}, {'distinct': False, 'final': ('aggr', 'MAX')}, {'final': ('aggr', 'MIN')}, {'distinct': True, 'final': ('list',)}, {'final': ('list',)},
      {'distinct': False, 'final': ('list',)}]),
    ('((p.a, p.b) for p in P if p.a > x)', {'x': [INT(1)]},
     [{'final': ('list',)}, {'distinct': False, 'final': ('list',)}, {'distinct': True, 'final': ('list',)}, {'final': ('aggr', 'COUNT')}]),
    ('(p.b for p in P)', {},
     [{'final': ('list',)}, {'distinct': False, 'final': ('list',)}, {'distinct': True, 'final': ('list',)}]),
    ('(p.a for p in P)', {},
     [{'final': ('aggr', 'COUNT', None, d)} for d in (None, True, False)] + [{'final': ('aggr', 'SUM', None, d)} for d in (None, True, False)]),
    ('(p.s for p in P)', {},
     [{'distinct': False, 'final': ('aggr', 'GROUP_CONCAT', sep)} for sep in (None, '-', '')] + [{'final': ('aggr', 'COUNT', None, False)}, {'final': ('aggr', 'COUNT')}]),
    ('(p for p in P)', {},
     [{'order': [('p.a', False), ('p.id', False)], 'final': ('slice', 0, 2)}, {'order': [('p.a', True), ('p.id', False)], 'final': ('slice', 0, 2)}, {'order': [('p.id', False)], 'final': ('first',)}]),
]


def chain_sql(db, prog):
    """SQL text and arguments the real method chain would execute (fetch intercepted)"""
    from pony.orm import db_session
    final = (prog.chain or {}).get('final', ('list',))
    with db_session:
        q = e1.build_query(db, prog)
        if final[0] == 'aggr':
            return q._construct_sql_and_arguments(aggr_func_name=final[1], aggr_func_distinct=final[3] if len(final) > 3 else None, sep=final[2] if len(final) > 2 else None)[:2]
        cap = e1.capture_fetch(q, final)
        if final[0] == 'first': q, cap = cap
        return q._construct_sql_and_arguments(cap[0], cap[1])[:2]


def chain_histories(rep, db, S, tier, rng, exclude):
    from checks import c24
    n = 0
    for src, spec, chains in CHAIN_FAMILY:
        combos = [(v, c) for v in vectors(spec) for c in chains]
        pairs = [(a, b) for a in combos for b in combos if a != b]
        if tier == 'quick' and len(pairs) > 40: pairs = rng.sample(pairs, 40)
        for (v1, c1), (v2, c2) in pairs:
            n += 1
            p1, p2 = Program(src, v1, 'string', chain=c1), Program(src, v2, 'string', chain=c2)
            name = 'chain | %s with %r then %s with %r' % (p1.describe(), {k: v[1] for k, v in v1.items()}, p2.describe(), {k: v[1] for k, v in v2.items()})
            clear_caches(db)
            try: cold = chain_sql(db, p2)
            except Exception as ex: cold = ('error', type(ex).__name__)
            clear_caches(db)
            try: chain_sql(db, p1)
            except Exception: pass
            try: warm = chain_sql(db, p2)
            except Exception as ex: warm = ('error', type(ex).__name__)
            if warm != cold:
                rep.add(Ob(name + ' [differential]', 'concrete-tie', CEX, detail='warm %r | cold %r' % (warm, cold), reproduced=True, key='warm-differs-from-cold',
                           cex={'first': p1.describe(), 'second': p2.describe(), 'warm': repr(warm)[:300], 'cold': repr(cold)[:300]},
                           replay='# C05: %s then %s on one Database: warm %r, cold %r\nraise SystemExit(1)\n' % (p1.describe(), p2.describe(), warm, cold)))
            else:
                rep.add(Ob(name + ' [differential]', 'concrete-tie', HOLDS))
            if cold[0] == 'error':
                rep.add(Ob(name, 'z3', REJECTED, detail='rejected with %s' % cold[1])); continue
            for ob in c24.check_chain(db, S, p2, exclude):          # decided on the warm caches
                ob.name = name
                rep.add(ob)
    return n


JOIN_SOURCES = ['((p.id, g.id) for g in G for p in g.ps)', '((g.id, t.id) for g in G for t in g.tags)', '((g.id, p.a) for g in G for p in g.ps if p.a > x)',
                '((g.name, p.s) for g in G for p in g.ps)']


def join_mode_histories(rep, db, S, exclude):
    """select(src) and left_join(src) on the SAME source text / code object: the join mode is part of every cache key.
    Differential (structural) for both orders; the warm select() translation is additionally decided by the E1 obligation."""
    from pony.orm import core, db_session
    n = 0
    def text(src, fn, form, scope):
        with db_session:
            g = {e.__name__: e for e in db.entities.values()}
            if form == 'string': q = fn(src, g, dict(scope))
            else:
                gg = dict(g); gg.update(scope); q = fn(eval(src, gg))
            return q._construct_sql_and_arguments()[:2]
    for src in JOIN_SOURCES:
        scope = {'x': 1} if ' x' in src else {}
        for form in ('string', 'generator'):
            for first, second in ((core.select, core.left_join), (core.left_join, core.select)):
                n += 1
                name = 'join-mode | %s(%s) then %s(%s) [%s]' % (first.__name__, src, second.__name__, src, form)
                clear_caches(db)
                try: cold = text(src, second, form, scope)
                except Exception as ex: cold = ('error', type(ex).__name__)
                clear_caches(db)
                try: text(src, first, form, scope)
                except Exception: pass
                try: warm = text(src, second, form, scope)
                except Exception as ex: warm = ('error', type(ex).__name__)
                if warm != cold:
                    rep.add(Ob(name + ' [differential]', 'concrete-tie', CEX, detail='warm %r | cold %r' % (warm, cold), reproduced=True, key='warm-differs-from-cold',
                               cex={'program': src, 'form': form, 'first': first.__name__, 'second': second.__name__, 'warm': repr(warm)[:300], 'cold': repr(cold)[:300]},
                               replay='# C05: %s(src) then %s(src) for src=%r on one Database: warm %r, cold %r\nraise SystemExit(1)\n' % (first.__name__, second.__name__, src, warm, cold)))
                else:
                    rep.add(Ob(name + ' [differential]', 'concrete-tie', HOLDS))
                if second is core.select and cold[0] != 'error':
                    p2 = Program(src, {'x': INT(1)} if scope else {}, form)
                    for ob in c01.check_program(db, S, p2, 'SQLite', 'sqlite', 10000, validate=False, exclude=exclude):   # caches still warm
                        ob.name = name
                        rep.add(ob)
    clear_caches(db)
    return n


def from_select_histories(rep, db):
    """A query that iterates over a lazy slice of another query: the inner limit / offset are part of the type of `.0` and so of
    every cache key.  Differential (structural): the SQL of the second execution equals a cold translation of it."""
    from pony.orm import core, db_session
    P = db.P
    variants = [(None, 1), (None, 2), (None, None), (2, 1), (2, None), (3, 1), (2, 2)]
    def text(v):
        lim, off = v
        with db_session:
            base = core.select('(p for p in P)', {'P': P}, {}).order_by(P.id)
            inner = base.limit(lim, offset=off) if (lim is not None or off is not None) else base
            q = core.select('(x for x in inner if x.a > 0)', {}, {'inner': inner})
            return q._construct_sql_and_arguments()[:2]
    n = 0
    for v1 in variants:
        for v2 in variants:
            if v1 == v2: continue
            n += 1
            name = 'from-select | inner slice limit/offset %r then %r' % (v1, v2)
            clear_caches(db)
            try: cold = text(v2)
            except Exception as ex: cold = ('error', type(ex).__name__)
            clear_caches(db)
            try: text(v1)
            except Exception: pass
            try: warm = text(v2)
            except Exception as ex: warm = ('error', type(ex).__name__)
            if warm != cold:
                rep.add(Ob(name + ' [differential]', 'concrete-tie', CEX, detail='warm %r | cold %r' % (warm, cold), reproduced=True, key='warm-differs-from-cold',
                           cex={'first': repr(v1), 'second': repr(v2), 'warm': repr(warm)[:300], 'cold': repr(cold)[:300]},
                           replay='# C05: select over a lazy slice %r then %r: warm %r, cold %r\nraise SystemExit(1)\n' % (v1, v2, warm, cold)))
            else:
                rep.add(Ob(name + ' [differential]', 'concrete-tie', HOLDS))
    clear_caches(db)
    return n


def session_histories(rep):
    """Per-session result cache and entity-level SQL caches (concrete histories on real SQLite, NOT solver-quantified): the second
    step of each history must return what a cold evaluation of it returns on the same data."""
    from pony.orm import Database, Required, Optional, PrimaryKey, db_session, select, flush, rollback, commit
    def fresh():
        db = Database()
        class T(db.Entity):
            id = PrimaryKey(int)
            v = Required(int)
            w = Optional(int)
            name = Optional(str, nullable=True)
        db.bind('sqlite', ':memory:'); db.generate_mapping(create_tables=True)
        with db_session:
            T(id=1, v=1, w=1, name='a'); T(id=2, v=2, name='b'); T(id=3, v=3, w=3)
        return db
    H = []
    def hist(name, known=None):
        def deco(f): H.append((name, f, known)); return f
        return deco
    @hist('select, modify without flush, same select')
    def _(T):
        q = lambda: sorted(select(t.v for t in T if t.v > 1))
        a = q(); T[1].v = 10; return q(), [2, 3, 10]
    @hist('select, create without flush, same select')
    def _(T):
        q = lambda: sorted(select(t.id for t in T))
        a = q(); T(id=4, v=4); return q(), [1, 2, 3, 4]
    @hist('select, delete without flush, same select')
    def _(T):
        q = lambda: sorted(select(t.id for t in T))
        a = q(); T[2].delete(); return q(), [1, 3]
    @hist('select with limit, modify, same select with limit')
    def _(T):
        q = lambda: select(t.v for t in T).order_by(-1)[:1]
        a = q(); T[1].v = 10; return list(q()), [10]
    @hist('same query, other parameter value')
    def _(T):
        def q(x): return sorted(select(t.id for t in T if t.v > x))
        a = q(1); return q(2), [3]
    @hist('aggregate, modify without flush, same aggregate', 'aggregate-result-cache-not-invalidated')
    def _(T):
        q = lambda: select(t.v for t in T).sum()
        a = q(); T[1].v = 10; return q(), 15
    @hist('result list mutated in place by the caller, same query', 'query-result-list-mutated-in-cache')
    def _(T):
        q = lambda: select(t.id for t in T).order_by(1)[:]
        r = q(); r.reverse(); return list(q()), [1, 2, 3]
    @hist('get(**kw) with a value, then with None for the same keyword')
    def _(T):
        a = T.get(v=1, w=1); rollback(); return T.get(v=2, w=None).id, 2
    @hist('get(**kw) with None, then with a value for the same keyword')
    def _(T):
        a = T.get(v=2, w=None); rollback(); return (T.get(v=3, w=3).id, T.get(v=1, w=3)), (3, None)
    @hist('get(**kw) on a nullable string: None then value')
    def _(T):
        a = T.get(name=None); rollback(); return T.get(name='b').id, 2
    @hist('exists / get after modification')
    def _(T):
        a = T.exists(v=10); T[1].v = 10; return T.exists(v=10), True
    @hist('select of objects, update of another attribute, select by that attribute')
    def _(T):
        a = select(t for t in T if t.w == 5)[:]; T[2].w = 5; return [t.id for t in select(t for t in T if t.w == 5)], [2]
    known = {e['key'] for e in load_known('C05')}
    for name, f, kkey in H:
        db = fresh()
        nm = 'session-history: ' + name
        try:
            with db_session:
                try: got, want = f(db.T)
                finally: rollback()
        except Exception as ex:
            got, want = 'raised %s: %s' % (type(ex).__name__, str(ex)[:80]), 'no exception'
        if got == want: rep.add(Ob(nm, 'concrete-tie', HOLDS, detail=repr(got)))
        else:
            rep.add(Ob(nm, 'concrete-tie', CEX, detail='second step returned %r, a cold evaluation gives %r' % (got, want), reproduced=True, key=kkey,
                       cex={'history': name, 'got': repr(got), 'expected': repr(want)},
                       replay='# C05 session history %r: got %r, expected %r (see checks/c05.py session_histories)\nraise SystemExit(1)\n' % (name, got, want)))


def vectors(spec):
    names = sorted(spec)
    for combo in itertools.product(*[spec[n] for n in names]):
        yield dict(zip(names, combo))


def clear_caches(db):
    from pony.orm import core, ormtypes, asttranslation, decompiling
    db._translator_cache.clear(); db._constructed_sql_cache.clear()
    core.string2ast_cache.clear(); asttranslation.extractors_cache.clear(); decompiling.ast_cache.clear()
    ormtypes.raw_sql_cache.clear(); core.adapted_sql_cache.clear()


def sql_of(db, prog):
    from pony.orm import db_session
    with db_session:
        q = e1.build_query(db, prog)
        sql, params, tr = e1.real_sql(db, q)
        args = q._construct_sql_and_arguments()[1]
    return sql, args


def alternating_code_objects(rep, db):
    """(c) caches keyed by code-object identity: many short-lived generator objects of DIFFERENT programs are created, used and
    dropped in turn (each eval() makes a fresh code object that is freed afterwards); the SQL each of them yields must equal the
    SQL of the same program given as a string.  Concrete differential (identity reuse depends on the allocator, so the loop is long)."""
    clear_caches(db)
    srcs = [(src, {k: v[0] for k, v in spec.items()}) for src, spec in FAMILY]
    ref = {}
    for src, sc in srcs:
        try: ref[src] = sql_of(db, Program(src, sc, 'string'))[0]
        except Exception as ex: ref[src] = 'error:' + type(ex).__name__
    bad = None
    rounds = 0
    for rnd in range(40):
        for src, sc in srcs:
            rounds += 1
            try: got = sql_of(db, Program(src, sc, 'generator'))[0]
            except Exception as ex: got = 'error:' + type(ex).__name__
            if got != ref[src] and bad is None:
                bad = (src, got, ref[src], rounds)
    nm = 'alternating code objects: %d generator queries of %d programs' % (rounds, len(srcs))
    if bad is None: rep.add(Ob(nm, 'concrete-tie', HOLDS))
    else:
        rep.add(Ob(nm, 'concrete-tie', CEX, reproduced=True, key='code-object-identity-cache',
                   detail='after %d queries the generator %r is translated to %r; the same program as a string gives %r' % (bad[3], bad[0], bad[1], bad[2]),
                   cex={'program': bad[0], 'got': bad[1], 'expected': bad[2]},
                   replay='# C05 (c): see checks/c05.py alternating_code_objects(); generator %r translated to %r instead of %r\nraise SystemExit(1)\n' % (bad[0], bad[1], bad[2])))
    clear_caches(db)


def run(tier, seed, only=None):
    from pony.orm import core
    rep = Report('C05', 'translation_validation',
                 'Two-step histories on one Database with every cache left warm: execution with parameter vector v1, then v2. The warm '
                 'translation of the second execution is decided by the E1 obligation (z3, all table contents and all non-pinned parameter '
                 'values symbolic) and its SQL text / arguments are compared with a cold run. Raw-SQL adaptation histories run under CrossHair.')
    rep.fn(core.Query._get_translator if hasattr(core.Query, '_get_translator') else core.Query.__init__, core.Query._construct_sql_and_arguments,
           core.extract_vars, core.string2ast, core.adapt_sql)
    rng = random.Random(seed)
    db = c01.get_db('sqlite')
    S = symdb.build(db, R=2, strlen=3)
    c01.PID = 'C05'
    exclude = [e['key'] for e in load_known('C01')] + ['slice-from-0-to-minus-1-returns-whole-string']
    n = 0
    fam = FAMILY if not only else [f for f in FAMILY if only in f[0]]
    for src, spec in fam:
        vecs = list(vectors(spec))
        pairs = [(a, b) for a in vecs for b in vecs if a != b]
        if tier == 'quick' and len(pairs) > 8: pairs = rng.sample(pairs, 8)
        for form in ('string', 'generator'):
            for v1, v2 in pairs:
                n += 1
                name = '%s | %s: %r then %r' % (form, src, {k: v[1] for k, v in v1.items()}, {k: v[1] for k, v in v2.items()})
                p1, p2 = Program(src, v1, form), Program(src, v2, form)
                # cold reference for v2
                clear_caches(db)
                try: cold = sql_of(db, p2)
                except Exception as ex: cold = ('error', type(ex).__name__)
                clear_caches(db)
                try: sql_of(db, p1)                       # first execution populates every cache
                except Exception: pass
                try: warm = sql_of(db, p2)
                except Exception as ex: warm = ('error', type(ex).__name__)
                if warm != cold:
                    rep.add(Ob(name + ' [differential]', 'concrete-tie', CEX, detail='warm %r | cold %r' % (warm, cold), reproduced=True, key='warm-differs-from-cold',
                               cex={'program': src, 'form': form, 'first': {k: v[1] for k, v in v1.items()}, 'second': {k: v[1] for k, v in v2.items()},
                                    'warm': repr(warm)[:300], 'cold': repr(cold)[:300]},
                               replay='# C05: run %r with %r then %r on one Database: warm result %r, cold %r\nraise SystemExit(1)\n' % (src, v1, v2, warm, cold)))
                else:
                    rep.add(Ob(name + ' [differential]', 'concrete-tie', HOLDS))
                if cold[0] == 'error':
                    rep.add(Ob(name, 'z3', REJECTED, detail='rejected with %s' % cold[1])); continue
                # the warm translation is what check_program now sees (caches are NOT cleared)
                for ob in c01.check_program(db, S, p2, 'SQLite', 'sqlite', 10000, validate=False, exclude=exclude):
                    ob.name = name
                    rep.add(ob)
                    if ob.verdict == CEX: rep.sample({'program': name, 'counterexample': ob.cex, 'key': ob.key}, limit=6)
    clear_caches(db)
    if not only or only == 'chain':
        S3 = symdb.build(db, R=3, strlen=2)
        n += chain_histories(rep, db, S3, tier, rng, exclude + [e['key'] for e in load_known('C24')])
        clear_caches(db)
    if not only or only == 'join': n += join_mode_histories(rep, db, S, exclude)
    if not only or only == 'fromselect': n += from_select_histories(rep, db)
    rep.programs = n
    if not only: alternating_code_objects(rep, db)
    if not only or only == 'session': session_histories(rep)
    if not only:
        T = 150 if tier == 'quick' else 900
        specs = [dict(module='checks.h_c30', fn=f, cond_timeout=T, path_timeout=T / 2)
                 for f in ('adapt_history_format', 'adapt_history_pyformat', 'adapt_history_qmark', 'adapt_history_styles', 'rawsql_history', 'adapt_history_keys', 'rawsql_history_keys')]
        ch.run_harnesses(rep, specs, None)
    rep.bounds = {'histories': 'length 2 (a cache entry is written by one execution and misused by the next; pony never evicts)',
                  'programs': '%d (program, spelling, ordered parameter-vector pair) histories over %d parametrised programs' % (n, len(FAMILY)),
                  'symbolic': '2 rows per table, all non-pinned parameter values, strings len<=3'}
    rep.assumptions = ['input regions of the findings recorded for C01 and the s[:-1] finding of C25 are excluded (reported there)',
                       'the per-session result cache (query_results) under interleaved modifications is a session-history property (C10), outside this check']
    rep.trusted = ['z3', 'engine/symsql', 'crosshair-tool for the raw-SQL histories']
    return rep
