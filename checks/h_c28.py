"""CrossHair harnesses for C28 (in-place changes to Json and array values are persisted; reads never mark).

What runs: the real `TrackedDict` / `TrackedList` / `TrackedArray` objects that pony builds when it loads a row
(`JsonConverter.dbval2val` / `ArrayConverter.dbval2val` -> `TrackedValue.make` / `TrackedArray`), attached to a real
object loaded from a real in-memory SQLite database inside a real `db_session` (one fresh session per explored path,
rolled back at the end), and the real `tracked_method` wrappers, `TrackedDict.update`, `TrackedArray.append/extend/
insert/__setitem__`, `validate_item`, `Entity._attr_changed_`, `Attribute.__set__`.

Symbolic: which operation is applied (index into the operation table), its arguments - list index, slice bounds and
step, key (index into a small key alphabet: two present keys and one absent), repeat count, the inserted integer
(unbounded), the *shape* of the inserted value (int / list / dict / nested) and the *shape of the iterable argument*
(list / tuple / iterator / tracked list ...).

Reference statement (not pony code):
  changed  := plain copy of the whole attribute value after the operation != plain copy before it
  M (mutation rule)  changed  =>  the attribute's bit is in obj._wbits_, obj._status_ == 'modified' and obj is queued in
                     cache.objects_to_save (that is what makes commit write the new value);  asserted whether or not the
                     operation raised.
  W (wrapping rule)  after the operation every dict/list reachable inside the attribute value is a tracked container bound
                     to the same object and attribute.  W is what makes M hold for *sequences* of operations by induction:
                     every state reachable by a mutation sequence satisfies W, and M is checked from states satisfying W.
                     A plain container left inside a tracked value can be changed later without any notification.
  R (read rule)      a reading operation leaves _wbits_, _status_, objects_to_save and cache.modified untouched.

Harness families (one harness per target container; targets are the attribute value itself, a container one level down and
a container two levels down, for a dict-rooted and a list-rooted Json document, and the three array types):
  l_ops_*    rules M and W for append/insert/setitem/delitem/pop/remove/extend/reverse/sort/clear, for the statements
             `obj.attr += x`, `obj.attr *= n`, `parent[key] += x` ... (load, in-place operator, store back) and for plain assignment
  l_slice_*  rules M and W for slice assignment and slice deletion (quick tier: three targets; thorough: all)
  l_read_*   rule R for every reading operation of list
  d_ops_* / d_read_*   the same for dict (setitem/delitem/setdefault/pop/popitem/clear/update in its call forms, `|=` statement)
  l_alias_* / d_alias_*   the in-place operators applied to a name bound to the tracked value (`t = obj.tags; t += [1]`, `t *= 2`,
             `t |= {...}`) and rule W for the statement forms.  RED on the unchanged tree: list.__iadd__/__imul__ and dict.__ior__ are
             inherited unwrapped (finding `inplace-operator-not-tracked`).  DESIGN.md expected `obj.tags += [...]` itself to be lost;
             that is refuted - the statement ends with a store that marks the attribute - but the new items are not wrapped.
  l_wn_*     rule W when the new items come from an iterable that is neither list nor dict (tuple, iterator, generator).  RED on
             the unchanged tree: tracked_method only wraps list/dict ARGUMENTS, so `lst.extend(({},))` or `lst[0:0] = iter([[]])`
             stores plain containers (finding `items-from-non-list-iterable-not-wrapped`).
The two RED families are separate harnesses so that every other operation is still decided (CrossHair stops a harness at its
first counterexample); they assert exactly the same rules and turn green when the containers are repaired.

Bounds (quick / thorough) are the module constants below and the `pre:` lines.  list/dict C code is not symbolic: a symbolic
index handed to `list.insert` is realised inside `__index__`; the bounded arguments are therefore made concrete by explicit
comparisons (`pick`), lazily, so an operation forks only on the arguments it reads; the inserted integer stays symbolic and
unbounded (it decides whether `remove`/`setitem`/`sort` change anything).  Index ranges cover "negative, inside, == len, beyond"
for the 2-4 item lists used.  Deviation from DESIGN.md: ordered *pairs* of operations are not explored symbolically; rule W
replaces them (a pair can only go wrong when its first step leaves an untracked container or an unmarked change, and both are
asserted after every single step from W-states at depth 0, 1 and 2), and checks/c28.py runs every ordered pair
`op1; flush(); op2; commit; re-read` concretely in the thorough tier.
"""
import operator
import os
from typing import Optional as Opt

from engine.ch import ok

THOROUGH = os.environ.get('C28_TIER') == 'thorough'
IDX_LO, IDX_HI = (-6, 6) if THOROUGH else (-2, 4)        # list index range (lists have 2..4 items)
SL_LO, SL_HI = (-2, 2) if THOROUGH else (-1, 1)          # slice bound range (None is always included)
STEPS = (None, 2, -1) if THOROUGH else (None, 2)
NSTEP = len(STEPS)
N_LO, N_HI = (-1, 3) if THOROUGH else (0, 2)             # repeat count for *=
NSHAPE = 7 if THOROUGH else 4                            # value shapes (see value())
NSEQ = 6 if THOROUGH else 4                              # iterable-argument shapes (see iterable() / mapping())
NONLIST = (1, 2, 5) if THOROUGH else (1, 2)              # iterable shapes that are neither list nor dict: tuple, iterator, generator
NNONLIST = len(NONLIST)
NSLSHAPE = 2                                             # value shapes used by the slice-assignment harnesses

db = None
J = R = None
KEYS = ('a', 'b', 'z')          # 'a', 'b' are present in every target dict except jd2 ('b' only); 'z' is absent everywhere

DOC1 = {'a': [1, {'b': 2}, [True, 1]], 'b': {'a': 5, 'b': [6]}, 'c': 7}      # [True, 1]: equal under ==, different when serialised
DOC2 = [2, {'a': 1, 'b': [4]}, [3], 2]
TAGS = [3, 1, 2, 1]
NAMES = ['b', 'a', 'b']
VALS = [1.5, 0.5]


def setup():
    global db, J, R
    if db is not None:
        return
    from pony.orm import Database, PrimaryKey, Required, Optional, Json, IntArray, StrArray, FloatArray, db_session
    from pony.orm import core
    core.time = lambda: 0.0          # pony's QueryStat reads the clock; CrossHair would make it a fresh symbolic float
    db = Database()

    class J(db.Entity):
        id = PrimaryKey(int)
        data = Required(Json)
        other = Optional(int)

    class R(db.Entity):
        id = PrimaryKey(int)
        tags = Optional(IntArray)
        names = Optional(StrArray)
        vals = Optional(FloatArray)
    globals()['J'] = J
    globals()['R'] = R
    db.bind('sqlite', ':memory:')
    db.generate_mapping(create_tables=True)
    with db_session:
        J(id=1, data=DOC1)
        J(id=2, data=DOC2)
        R(id=1, tags=TAGS, names=NAMES, vals=VALS)


# target name -> (entity name, pk, attribute name, path from the attribute value to the container operated on)
TARGETS = {
    'jd0': ('J', 1, 'data', ()),            # top-level dict
    'jl1': ('J', 1, 'data', ('a',)),        # list one level down
    'jd1': ('J', 1, 'data', ('b',)),        # dict one level down
    'jd2': ('J', 1, 'data', ('a', 1)),      # dict two levels down
    'jl2': ('J', 1, 'data', ('a', 2)),      # list two levels down
    'jl0': ('J', 2, 'data', ()),            # top-level list
    'jd1b': ('J', 2, 'data', (1,)),         # dict inside a top-level list
    'jl1b': ('J', 2, 'data', (2,)),         # list inside a top-level list
    'ia': ('R', 1, 'tags', ()),             # IntArray
    'sa': ('R', 1, 'names', ()),            # StrArray
    'fa': ('R', 1, 'vals', ()),             # FloatArray
}


KIND = {'ia': 'int', 'sa': 'str', 'fa': 'float'}
for _t in TARGETS: KIND.setdefault(_t, 'json')
LIST_TARGETS = ('jl0', 'jl1', 'jl2', 'jl1b', 'ia', 'sa', 'fa')
DICT_TARGETS = ('jd0', 'jd1', 'jd2', 'jd1b')


def pick(x, lo, hi):
    """turn a bounded symbolic int into a concrete one through explicit comparisons (each one a recorded fork). Handing the
    symbolic int to list C code instead makes CrossHair realise it inside `__index__`, which re-explored the same concrete
    arguments several times (measured: 60-80 paths instead of 32, and the slice harness did not finish)."""
    if x is None: return None
    for c in range(lo, hi + 1):
        if x == c: return c
    raise AssertionError('out of range')


class Args(object):
    """the symbolic arguments of one operation; a bounded argument is made concrete (pick) the first time the operation
    reads it, so an operation only forks on the arguments it uses.  `v` (the inserted integer) stays symbolic."""
    RANGES = {'i': lambda: (IDX_LO, IDX_HI), 'lo': lambda: (SL_LO, SL_HI), 'hi': lambda: (SL_LO, SL_HI), 'st': lambda: (0, NSTEP - 1),
              'k': lambda: (0, 2), 'n': lambda: (N_LO, N_HI), 'shape': lambda: (0, 6), 'seq': lambda: (0, 6)}

    def __init__(self, i=0, lo=None, hi=None, st=0, k=0, n=0, v=0, shape=0, seq=0, kind='json'):
        self.raw = {'i': i, 'lo': lo, 'hi': hi, 'st': st, 'k': k, 'n': n, 'shape': shape, 'seq': seq}
        self.done = {}
        self.v = v
        self.kind = kind

    def __getattr__(self, name):
        if name in ('raw', 'done') or name not in self.raw: raise AttributeError(name)
        if name not in self.done:
            lo, hi = self.RANGES[name]()
            self.done[name] = pick(self.raw[name], lo, hi)
        return self.done[name]


class Idx(object):
    """an item that is not an int but has __index__ (TrackedArray.validate_item converts it)"""
    def __init__(self, v): self.v = v
    def __index__(self): return self.v


def value(A):
    """the inserted value: shape picks its structure, A.v is the (symbolic) integer inside"""
    v, s = A.v, A.shape
    if A.kind == 'json':
        if s == 0: return v
        if s == 1: return [v]
        if s == 2: return {'a': v}
        if s == 3: return [{'a': [v]}, v]
        if s == 4: return None
        if s == 5: return 'a'
        return {'a': {'b': v}, 'z': []}
    if A.kind == 'int':
        if s == 0: return v
        if s == 1: return 'a'            # wrong item type: must be refused before anything changes
        if s == 2: return Idx(v)
        if s == 3: return True
        return 1.5                       # no __index__: refused
    if A.kind == 'str':
        if s == 0: return 'a' if v > 0 else 'c'
        if s == 1: return 7              # wrong item type (concrete: ArrayConverter.validate calls int.__index__, which realises)
        return 'b'
    if A.kind == 'float':
        if s == 0: return 0.5 if v > 0 else 2.5
        if s == 1: return 'a'            # wrong item type
        if s == 2: return 3              # an int: accepted through __index__ (concrete: int.__index__ realises a symbolic int)
        return 0.5
    raise AssertionError(A.kind)


def iterable(A, c):
    """the iterable argument of extend / slice assignment / += : seq picks the kind of iterable"""
    x = value(A)
    s = A.seq
    if s == 0: return [x]
    if s == 1: return (x,)
    if s == 2: return iter([x, x])
    if s == 3: return []
    if s == 4: return c                 # the tracked container itself
    if s == 6:
        # a lazy iterable whose items come out of the session: producing an item flushes what the session has pending (that is what
        # every query does before it runs), so a change that was reported before the items were taken is written out WITHOUT them
        def lazy():
            from pony.orm import flush
            yield x
            flush()
            yield x
        return lazy()
    return (y for y in (x,))


def mapping(A, c):
    """the argument of update / |= : seq picks dict / list of pairs / tuple of pairs / iterator / the container itself"""
    x = value(A)
    k = KEYS[A.k]
    s = A.seq
    if s == 0: return {k: x}
    if s == 1: return [(k, x)]
    if s == 2: return iter([(k, x), ('z', 0)])
    if s == 3: return {}
    if s == 4: return c
    return ((k, x),)


def _sl(A):
    return slice(A.lo, A.hi, STEPS[A.st])


# ---- operation tables -------------------------------------------------------------------------------------------------
# Every entry applies ONE Python-level operation to the container `c`.  `t op= x` on a local name is exactly
# `t = operator.iop(t, x)`; the store into the local name is not observable, so the operator call is the whole statement.

def _get(o, name):
    # literal attribute loads/stores (CrossHair replaces the getattr/setattr builtins by untraced versions)
    if name == 'data': return o.data
    if name == 'tags': return o.tags
    if name == 'names': return o.names
    if name == 'vals': return o.vals
    raise AssertionError(name)


def _put(o, name, x):
    if name == 'data': o.data = x
    elif name == 'tags': o.tags = x
    elif name == 'names': o.names = x
    elif name == 'vals': o.vals = x
    else: raise AssertionError(name)


def _stmt_iadd(c, A, o, name, parent, key):
    # the statement form  `obj.attr += x`  /  `parent[key] += x`  (load, in-place operator, store back)
    if parent is None: _put(o, name, operator.iadd(_get(o, name), iterable(A, c)))
    else: parent[key] = operator.iadd(parent[key], iterable(A, c))


def _stmt_imul(c, A, o, name, parent, key):
    if parent is None: _put(o, name, operator.imul(_get(o, name), A.n))
    else: parent[key] = operator.imul(parent[key], A.n)


def _stmt_ior(c, A, o, name, parent, key):
    if parent is None: _put(o, name, operator.ior(_get(o, name), mapping(A, c)))
    else: parent[key] = operator.ior(parent[key], mapping(A, c))


def _stmt_assign(c, A, o, name, parent, key):
    # `obj.attr = new value` / `parent[key] = new value`: the new value must be tracked from then on (rule W)
    x = value(A)
    if A.kind != 'json': x = [x]
    if parent is None: _put(o, name, x)
    else: parent[key] = x


def _foreign(A):
    """a tracked container that belongs to ANOTHER object's attribute (seq picks which): assigning it must store a copy bound to the
    receiving object - otherwise later in-place changes notify the wrong object"""
    other = J[2] if A.kind == 'json' and A.target_pk == 1 else J[1]
    root = other.data
    if A.kind != 'json': return None
    s = A.seq
    if isinstance(root, dict):
        return root if s == 0 else root['a'] if s == 1 else root['b'] if s == 2 else root['a'][1]
    return root if s == 0 else root[1] if s == 1 else root[2] if s == 2 else root[1]['b']


def _stmt_assign_foreign(c, A, o, name, parent, key):
    x = _foreign(A)
    if x is None: return
    if parent is None: _put(o, name, x)
    else: parent[key] = x


LIST_OPS = [
    ('append', lambda c, A: c.append(value(A))),
    ('insert', lambda c, A: c.insert(A.i, value(A))),
    ('setitem', lambda c, A: c.__setitem__(A.i, value(A))),
    ('delitem', lambda c, A: c.__delitem__(A.i)),
    ('pop', lambda c, A: c.pop()),
    ('pop_i', lambda c, A: c.pop(A.i)),
    ('remove', lambda c, A: c.remove(value(A))),
    ('extend', lambda c, A: c.extend(iterable(A, c))),
    ('reverse', lambda c, A: c.reverse()),
    ('sort', lambda c, A: c.sort()),
    ('sort_reverse', lambda c, A: c.sort(reverse=True)),
    ('sort_key', lambda c, A: c.sort(key=lambda x: -x if isinstance(x, (int, float)) else 0)),
    ('clear', lambda c, A: c.clear()),
    ('stmt_iadd', _stmt_iadd),                                         # obj.attr += x   /  parent[key] += x
    ('stmt_imul', _stmt_imul),                                         # obj.attr *= n   /  parent[key] *= n
    ('stmt_assign', _stmt_assign),
    ('stmt_assign_foreign', _stmt_assign_foreign),
]
LIST_ALIAS_OPS = [
    ('iadd', lambda c, A: operator.iadd(c, iterable(A, c))),           # t = obj.attr[...]; t += x
    ('imul', lambda c, A: operator.imul(c, A.n)),                      # t = obj.attr[...]; t *= n
    ('stmt_iadd', _stmt_iadd),                                         # rule W for the statement forms (rule M for them is in LIST_OPS)
    ('stmt_imul', _stmt_imul),
]
LIST_SLICE_OPS = [
    ('setslice', lambda c, A: c.__setitem__(_sl(A), iterable(A, c))),
    ('delslice', lambda c, A: c.__delitem__(_sl(A))),
]
LIST_ITER_OPS = [LIST_OPS[7], LIST_SLICE_OPS[0], LIST_OPS[13]]         # the operations that take an iterable of new items
assert [n for n, _ in LIST_ITER_OPS] == ['extend', 'setslice', 'stmt_iadd']

DICT_OPS = [
    ('setitem', lambda c, A: c.__setitem__(KEYS[A.k], value(A))),
    ('delitem', lambda c, A: c.__delitem__(KEYS[A.k])),
    ('setdefault', lambda c, A: c.setdefault(KEYS[A.k])),
    ('setdefault_v', lambda c, A: c.setdefault(KEYS[A.k], value(A))),
    ('pop', lambda c, A: c.pop(KEYS[A.k])),
    ('pop_default', lambda c, A: c.pop(KEYS[A.k], None)),
    ('popitem', lambda c, A: c.popitem()),
    ('clear', lambda c, A: c.clear()),
    ('update', lambda c, A: c.update(mapping(A, c))),
    ('update_kw', lambda c, A: c.update(**{KEYS[A.k]: value(A)})),
    ('update_both', lambda c, A: c.update(mapping(A, c), z=value(A))),
    ('stmt_ior', _stmt_ior),                                           # obj.attr |= x   /  parent[key] |= x
    ('stmt_assign', _stmt_assign),
    ('stmt_assign_foreign', _stmt_assign_foreign),
]
DICT_ALIAS_OPS = [
    ('ior', lambda c, A: operator.ior(c, mapping(A, c))),              # t = obj.attr[...]; t |= x
    ('stmt_ior', _stmt_ior),                                           # rule W for the statement form (rule M for it is in DICT_OPS)
]

LIST_READS = [
    ('len', lambda c, A: len(c)),
    ('contains', lambda c, A: value(A) in c),
    ('getitem', lambda c, A: c[A.i]),
    ('getslice', lambda c, A: c[_sl(A)]),
    ('iter', lambda c, A: [x for x in c]),
    ('reversed', lambda c, A: list(reversed(c))),
    ('copy', lambda c, A: c.copy()),
    ('count', lambda c, A: c.count(value(A))),
    ('index', lambda c, A: c.index(value(A))),
    ('add', lambda c, A: c + [value(A)]),
    ('mul', lambda c, A: c * A.n),
    ('rmul', lambda c, A: A.n * c),
    ('eq', lambda c, A: c == [value(A)]),
    ('lt', lambda c, A: c < [value(A)]),
    ('repr', lambda c, A: repr(c)),
    ('bool', lambda c, A: bool(c)),
    ('get_untracked', lambda c, A: c.get_untracked()),
    ('list', lambda c, A: list(c)),
    ('sorted', lambda c, A: sorted(c, key=repr)),
    ('nested_read', lambda c, A: [len(x) for x in c if isinstance(x, (list, dict))]),
]
DICT_READS = [
    ('len', lambda c, A: len(c)),
    ('contains', lambda c, A: KEYS[A.k] in c),
    ('getitem', lambda c, A: c[KEYS[A.k]]),
    ('get', lambda c, A: c.get(KEYS[A.k])),
    ('get_default', lambda c, A: c.get(KEYS[A.k], value(A))),
    ('iter', lambda c, A: [x for x in c]),
    ('reversed', lambda c, A: list(reversed(c))),
    ('keys', lambda c, A: list(c.keys())),
    ('values', lambda c, A: list(c.values())),
    ('items', lambda c, A: list(c.items())),
    ('copy', lambda c, A: c.copy()),
    ('or', lambda c, A: c | {KEYS[A.k]: value(A)}),
    ('ror', lambda c, A: {KEYS[A.k]: value(A)} | c),
    ('eq', lambda c, A: c == {KEYS[A.k]: value(A)}),
    ('repr', lambda c, A: repr(c)),
    ('bool', lambda c, A: bool(c)),
    ('fromkeys', lambda c, A: c.fromkeys(['a'], value(A))),
    ('get_untracked', lambda c, A: c.get_untracked()),
    ('dict', lambda c, A: dict(c)),
    ('nested_read', lambda c, A: [len(x) for x in c.values() if isinstance(x, (list, dict))]),
]

# classification of every public name of list / dict (checked structurally in checks/c28.py against dir(list)/dir(dict) and
# against a concrete probe of plain containers): which table entries exercise it
LIST_NAMES = {
    '__setitem__': ['setitem', 'setslice', 'stmt_assign'], '__delitem__': ['delitem', 'delslice'], '__iadd__': ['iadd', 'stmt_iadd'],
    '__imul__': ['imul', 'stmt_imul'], 'append': ['append'], 'extend': ['extend'], 'insert': ['insert'], 'pop': ['pop', 'pop_i'],
    'remove': ['remove'], 'reverse': ['reverse'], 'sort': ['sort', 'sort_reverse', 'sort_key'], 'clear': ['clear'],
}
LIST_READ_NAMES = {
    '__len__': ['len'], '__contains__': ['contains'], '__getitem__': ['getitem', 'getslice'], '__iter__': ['iter'],
    '__reversed__': ['reversed'], 'copy': ['copy'], 'count': ['count'], 'index': ['index'], '__add__': ['add'],
    '__mul__': ['mul'], '__rmul__': ['rmul'], '__eq__': ['eq'], '__lt__': ['lt'], '__repr__': ['repr'],
}
DICT_NAMES = {
    '__setitem__': ['setitem', 'stmt_assign'], '__delitem__': ['delitem'], '__ior__': ['ior', 'stmt_ior'], 'setdefault': ['setdefault', 'setdefault_v'],
    'pop': ['pop', 'pop_default'], 'popitem': ['popitem'], 'clear': ['clear'], 'update': ['update', 'update_kw', 'update_both'],
}
DICT_READ_NAMES = {
    '__len__': ['len'], '__contains__': ['contains'], '__getitem__': ['getitem'], 'get': ['get', 'get_default'], '__iter__': ['iter'],
    '__reversed__': ['reversed'], 'keys': ['keys'], 'values': ['values'], 'items': ['items'], 'copy': ['copy'], '__or__': ['or'],
    '__ror__': ['ror'], '__eq__': ['eq'], '__repr__': ['repr'], 'fromkeys': ['fromkeys'],
}
# names that are not operations on an existing value (construction / class protocol / object protocol)
NOT_OPERATIONS = {'__class_getitem__', '__init__', '__new__', '__init_subclass__', '__subclasshook__', '__class__', '__doc__',
                  '__hash__', '__getattribute__', '__setattr__', '__delattr__', '__dir__', '__format__', '__getstate__',
                  '__reduce__', '__reduce_ex__', '__sizeof__', '__str__', '__ne__', '__lt__', '__le__', '__gt__', '__ge__'}


# ---- the common body --------------------------------------------------------------------------------------------------

NOTHING = object()


def plain(x):
    if isinstance(x, dict): return {k: plain(v) for k, v in x.items()}
    if isinstance(x, (list, tuple)): return [plain(v) for v in x]
    return x


def strict(x):
    """type-strict image used to decide "changed": 1, True and 1.0 compare equal in Python but are different JSON / array values,
    so a reorder that keeps the list `==` to its old self is still a change that must be persisted"""
    if isinstance(x, dict): return {k: strict(v) for k, v in x.items()}
    if isinstance(x, (list, tuple)): return [strict(v) for v in x]
    return (type(x).__name__, x)


def wrapped(x, o, attr):
    from pony.orm.ormtypes import TrackedValue
    if isinstance(x, (dict, list)):
        if not (isinstance(x, TrackedValue) and x.obj_ref() is o and x.attr is attr): return False
        for y in (x.values() if isinstance(x, dict) else x):
            if not wrapped(y, o, attr): return False
    return True


def _fresh():
    from pony.orm import core
    core.local.db_context_counter = 0
    core.local.db_session = None
    core.rollback()


def _load(target):
    ename, pk, aname, path = TARGETS[target]
    E = J if ename == 'J' else R
    o = E[pk]
    root = _get(o, aname)
    c, parent, key = root, None, None
    for step in path:
        parent, key = c, step
        c = c[step]
    return o, getattr(E, aname), aname, root, c, parent, key


def _queued(o):
    for x in o._session_cache_.objects_to_save:
        if x is o: return True
    return False


def mutate(target, table, op, A, state=0):
    """one operation on a freshly loaded object; returns (M holds, W holds).
    state 0: the object was loaded; 1: it was created and flushed in this session (status 'inserted'); 2: it was loaded, assigned
    and flushed (status 'updated') - an in-place change after a flush must be queued for saving again; 3: ANOTHER attribute of the
    loaded object was assigned just before (status 'modified', already queued): the in-place change must still set its own write bit"""
    from pony.orm import db_session, rollback, flush
    _fresh()
    A.kind = KIND[target]
    A.target_pk = TARGETS[target][1]
    with db_session:
        try:
            o, attr, aname, root, c, parent, key = _load(target)
            if state == 3:
                # the object is already 'modified' (queued, another attribute's write bit set) when the in-place change happens
                ename = TARGETS[target][0]
                if ename == 'J': o.other = 5
                elif aname == 'tags': o.names = ['x']
                else: o.tags = [9]
                if not (o._status_ == 'modified' and o._wbits_ and not (o._wbits_ & o._bits_[attr]) and wrapped(root, o, attr)): return False, False
            elif state:
                ename, pk, _an, path = TARGETS[target]
                if state == 1:
                    E = J if ename == 'J' else R
                    if ename == 'J': o = E(id=90, data=plain(root))
                    else: o = E(id=90, tags=plain(o.tags), names=plain(o.names), vals=plain(o.vals))
                else:
                    _put(o, aname, plain(root))
                flush()
                root = _get(o, aname)
                c, parent, key = root, None, None
                for step in path:
                    parent, key = c, step
                    c = c[step]
                if not (o._status_ == ('inserted' if state == 1 else 'updated') and not o._wbits_ and wrapped(root, o, attr)): return False, False
            elif not (o._wbits_ == 0 and o._status_ == 'loaded' and wrapped(root, o, attr)): return False, False
            before = strict(root)
            name, f = table[op]
            ret = NOTHING
            try:
                if name.startswith('stmt_'): f(c, A, o, aname, parent, key)
                else: ret = f(c, A)
            except Exception:
                pass
            now = o._vals_[attr]
            w = wrapped(now, o, attr)
            # rule I: setdefault hands out the STORED item (a change made through the returned value is a change of the document)
            if name in ('setdefault', 'setdefault_v') and ret is not NOTHING and isinstance(ret, (list, dict)):
                if not (KEYS[A.k] in c and ret is c[KEYS[A.k]]): w = False
            if strict(now) == before:
                return True, w
            return (bool(o._wbits_ & o._bits_[attr]) and o._status_ == 'modified' and _queued(o)), w
        finally:
            rollback()


def _state_ops(t, op, state, v):
    """the mutating operations on an object that was already flushed once in this session"""
    st = 1 if state == 1 else 2 if state == 2 else 3
    if t in DICT_TARGETS:
        m, w = mutate(t, DICT_OPS, pick(op, 0, len(DICT_OPS) - 1), Args(k=0, v=v, shape=0, seq=0), state=st)
    else:
        m, w = mutate(t, LIST_OPS, pick(op, 0, len(LIST_OPS) - 1), Args(i=0, n=1, v=v, shape=0, seq=0), state=st)
    return m


def read(target, table, op, A):
    from pony.orm import db_session, rollback
    _fresh()
    A.kind = KIND[target]
    with db_session:
        try:
            o, attr, aname, root, c, parent, key = _load(target)
            cache = o._session_cache_
            if not wrapped(root, o, attr): return False
            before = strict(root)
            try: table[op][1](c, A)
            except Exception: pass
            return (o._wbits_ == 0 and o._status_ == 'loaded' and not _queued(o) and not cache.modified
                    and not cache.objects_to_save and strict(o._vals_[attr]) == before)
        finally:
            rollback()


# ---- harness bodies ---------------------------------------------------------------------------------------------------

def _l_ops(t, op, i, n, v, shape, seq):
    op = pick(op, 0, len(LIST_OPS) - 1)
    A = Args(i=i, n=n, v=v, shape=shape, seq=seq)
    m, w = mutate(t, LIST_OPS, op, A)
    # W for tuple/iterator arguments is asserted separately (l_wn_*), W for the in-place operator statements in l_alias_*
    return m and (w or LIST_OPS[op][0] == 'stmt_iadd' or A.seq in NONLIST)


def _l_slice(t, op, lo, hi, st, v, shape, seq):
    A = Args(lo=lo, hi=hi, st=st, v=v, shape=shape, seq=seq)
    m, w = mutate(t, LIST_SLICE_OPS, pick(op, 0, 1), A)
    return m and (w or A.seq in NONLIST)


def _l_alias(t, op, n, v, shape, seq):
    m, w = mutate(t, LIST_ALIAS_OPS, pick(op, 0, len(LIST_ALIAS_OPS) - 1), Args(n=n, v=v, shape=shape, seq=seq))
    return m and w


def _l_wn(t, op, lo, hi, v, shape, sq):
    m, w = mutate(t, LIST_ITER_OPS, pick(op, 0, len(LIST_ITER_OPS) - 1), Args(lo=lo, hi=hi, v=v, shape=shape, seq=NONLIST[pick(sq, 0, NNONLIST - 1)]))
    return w


def _l_lazy(t, op, lo, hi):
    """rule M when the new items come from a lazy iterable that flushes the session while it is consumed (shape 6): when the operation
    is over the attribute must be pending (write bit, 'modified', queued) - its change is not in the database yet"""
    m, w = mutate(t, LIST_ITER_OPS, pick(op, 0, len(LIST_ITER_OPS) - 1), Args(lo=lo, hi=hi, v=7, shape=0, seq=6))      # (the item is concrete: the flush writes it through the sqlite3 C module)
    return m


def _l_read(t, op, i, lo, hi, st, n, v, shape):
    return read(t, LIST_READS, pick(op, 0, len(LIST_READS) - 1), Args(i=i, lo=lo, hi=hi, st=st, n=n, v=v, shape=shape))


def _d_ops(t, op, k, v, shape, seq):
    op = pick(op, 0, len(DICT_OPS) - 1)
    m, w = mutate(t, DICT_OPS, op, Args(k=k, v=v, shape=shape, seq=seq))
    return m and (w or DICT_OPS[op][0] == 'stmt_ior')      # W for `|=` statements is asserted in d_alias_*


def _d_alias(t, op, k, v, shape, seq):
    m, w = mutate(t, DICT_ALIAS_OPS, pick(op, 0, len(DICT_ALIAS_OPS) - 1), Args(k=k, v=v, shape=shape, seq=seq))
    return m and w


def _d_read(t, op, k, v, shape):
    return read(t, DICT_READS, pick(op, 0, len(DICT_READS) - 1), Args(k=k, v=v, shape=shape))


# ---- harnesses: one per operation family and target container (repetitive on purpose: CrossHair reads each function's
# own docstring, and every harness runs in its own worker process) ------------------------------------------------------


def l_ops_jl0(op: int, i: int, n: int, v: int, shape: int, seq: int) -> bool:
    """
    pre: 0 <= op < len(LIST_OPS)
    pre: IDX_LO <= i <= IDX_HI
    pre: N_LO <= n <= N_HI
    pre: 0 <= shape < NSHAPE
    pre: 0 <= seq < NSEQ
    post: _
    """
    return ok(_l_ops('jl0', op, i, n, v, shape, seq))


def l_ops_jl1(op: int, i: int, n: int, v: int, shape: int, seq: int) -> bool:
    """
    pre: 0 <= op < len(LIST_OPS)
    pre: IDX_LO <= i <= IDX_HI
    pre: N_LO <= n <= N_HI
    pre: 0 <= shape < NSHAPE
    pre: 0 <= seq < NSEQ
    post: _
    """
    return ok(_l_ops('jl1', op, i, n, v, shape, seq))


def l_ops_jl2(op: int, i: int, n: int, v: int, shape: int, seq: int) -> bool:
    """
    pre: 0 <= op < len(LIST_OPS)
    pre: IDX_LO <= i <= IDX_HI
    pre: N_LO <= n <= N_HI
    pre: 0 <= shape < NSHAPE
    pre: 0 <= seq < NSEQ
    post: _
    """
    return ok(_l_ops('jl2', op, i, n, v, shape, seq))


def l_ops_jl1b(op: int, i: int, n: int, v: int, shape: int, seq: int) -> bool:
    """
    pre: 0 <= op < len(LIST_OPS)
    pre: IDX_LO <= i <= IDX_HI
    pre: N_LO <= n <= N_HI
    pre: 0 <= shape < NSHAPE
    pre: 0 <= seq < NSEQ
    post: _
    """
    return ok(_l_ops('jl1b', op, i, n, v, shape, seq))


def l_ops_ia(op: int, i: int, n: int, v: int, shape: int, seq: int) -> bool:
    """
    pre: 0 <= op < len(LIST_OPS)
    pre: IDX_LO <= i <= IDX_HI
    pre: N_LO <= n <= N_HI
    pre: 0 <= shape < NSHAPE
    pre: 0 <= seq < NSEQ
    post: _
    """
    return ok(_l_ops('ia', op, i, n, v, shape, seq))


def l_ops_sa(op: int, i: int, n: int, v: int, shape: int, seq: int) -> bool:
    """
    pre: 0 <= op < len(LIST_OPS)
    pre: IDX_LO <= i <= IDX_HI
    pre: N_LO <= n <= N_HI
    pre: 0 <= shape < NSHAPE
    pre: 0 <= seq < NSEQ
    post: _
    """
    return ok(_l_ops('sa', op, i, n, v, shape, seq))


def l_ops_fa(op: int, i: int, n: int, v: int, shape: int, seq: int) -> bool:
    """
    pre: 0 <= op < len(LIST_OPS)
    pre: IDX_LO <= i <= IDX_HI
    pre: N_LO <= n <= N_HI
    pre: 0 <= shape < NSHAPE
    pre: 0 <= seq < NSEQ
    post: _
    """
    return ok(_l_ops('fa', op, i, n, v, shape, seq))


def l_slice_jl0(op: int, lo: Opt[int], hi: Opt[int], st: int, v: int, shape: int, seq: int) -> bool:
    """
    pre: 0 <= op < len(LIST_SLICE_OPS)
    pre: lo is None or SL_LO <= lo <= SL_HI
    pre: hi is None or SL_LO <= hi <= SL_HI
    pre: 0 <= st < NSTEP
    pre: 0 <= shape < NSLSHAPE
    pre: 0 <= seq < NSEQ
    post: _
    """
    return ok(_l_slice('jl0', op, lo, hi, st, v, shape, seq))


def l_slice_jl1(op: int, lo: Opt[int], hi: Opt[int], st: int, v: int, shape: int, seq: int) -> bool:
    """
    pre: 0 <= op < len(LIST_SLICE_OPS)
    pre: lo is None or SL_LO <= lo <= SL_HI
    pre: hi is None or SL_LO <= hi <= SL_HI
    pre: 0 <= st < NSTEP
    pre: 0 <= shape < NSLSHAPE
    pre: 0 <= seq < NSEQ
    post: _
    """
    return ok(_l_slice('jl1', op, lo, hi, st, v, shape, seq))


def l_slice_jl2(op: int, lo: Opt[int], hi: Opt[int], st: int, v: int, shape: int, seq: int) -> bool:
    """
    pre: 0 <= op < len(LIST_SLICE_OPS)
    pre: lo is None or SL_LO <= lo <= SL_HI
    pre: hi is None or SL_LO <= hi <= SL_HI
    pre: 0 <= st < NSTEP
    pre: 0 <= shape < NSLSHAPE
    pre: 0 <= seq < NSEQ
    post: _
    """
    return ok(_l_slice('jl2', op, lo, hi, st, v, shape, seq))


def l_slice_jl1b(op: int, lo: Opt[int], hi: Opt[int], st: int, v: int, shape: int, seq: int) -> bool:
    """
    pre: 0 <= op < len(LIST_SLICE_OPS)
    pre: lo is None or SL_LO <= lo <= SL_HI
    pre: hi is None or SL_LO <= hi <= SL_HI
    pre: 0 <= st < NSTEP
    pre: 0 <= shape < NSLSHAPE
    pre: 0 <= seq < NSEQ
    post: _
    """
    return ok(_l_slice('jl1b', op, lo, hi, st, v, shape, seq))


def l_slice_ia(op: int, lo: Opt[int], hi: Opt[int], st: int, v: int, shape: int, seq: int) -> bool:
    """
    pre: 0 <= op < len(LIST_SLICE_OPS)
    pre: lo is None or SL_LO <= lo <= SL_HI
    pre: hi is None or SL_LO <= hi <= SL_HI
    pre: 0 <= st < NSTEP
    pre: 0 <= shape < NSLSHAPE
    pre: 0 <= seq < NSEQ
    post: _
    """
    return ok(_l_slice('ia', op, lo, hi, st, v, shape, seq))


def l_slice_sa(op: int, lo: Opt[int], hi: Opt[int], st: int, v: int, shape: int, seq: int) -> bool:
    """
    pre: 0 <= op < len(LIST_SLICE_OPS)
    pre: lo is None or SL_LO <= lo <= SL_HI
    pre: hi is None or SL_LO <= hi <= SL_HI
    pre: 0 <= st < NSTEP
    pre: 0 <= shape < NSLSHAPE
    pre: 0 <= seq < NSEQ
    post: _
    """
    return ok(_l_slice('sa', op, lo, hi, st, v, shape, seq))


def l_slice_fa(op: int, lo: Opt[int], hi: Opt[int], st: int, v: int, shape: int, seq: int) -> bool:
    """
    pre: 0 <= op < len(LIST_SLICE_OPS)
    pre: lo is None or SL_LO <= lo <= SL_HI
    pre: hi is None or SL_LO <= hi <= SL_HI
    pre: 0 <= st < NSTEP
    pre: 0 <= shape < NSLSHAPE
    pre: 0 <= seq < NSEQ
    post: _
    """
    return ok(_l_slice('fa', op, lo, hi, st, v, shape, seq))


def l_alias_jl0(op: int, n: int, v: int, shape: int, seq: int) -> bool:
    """
    pre: 0 <= op < len(LIST_ALIAS_OPS)
    pre: N_LO <= n <= N_HI
    pre: 0 <= shape < NSHAPE
    pre: 0 <= seq < NSEQ
    post: _
    """
    return ok(_l_alias('jl0', op, n, v, shape, seq))


def l_alias_jl1(op: int, n: int, v: int, shape: int, seq: int) -> bool:
    """
    pre: 0 <= op < len(LIST_ALIAS_OPS)
    pre: N_LO <= n <= N_HI
    pre: 0 <= shape < NSHAPE
    pre: 0 <= seq < NSEQ
    post: _
    """
    return ok(_l_alias('jl1', op, n, v, shape, seq))


def l_alias_jl2(op: int, n: int, v: int, shape: int, seq: int) -> bool:
    """
    pre: 0 <= op < len(LIST_ALIAS_OPS)
    pre: N_LO <= n <= N_HI
    pre: 0 <= shape < NSHAPE
    pre: 0 <= seq < NSEQ
    post: _
    """
    return ok(_l_alias('jl2', op, n, v, shape, seq))


def l_alias_jl1b(op: int, n: int, v: int, shape: int, seq: int) -> bool:
    """
    pre: 0 <= op < len(LIST_ALIAS_OPS)
    pre: N_LO <= n <= N_HI
    pre: 0 <= shape < NSHAPE
    pre: 0 <= seq < NSEQ
    post: _
    """
    return ok(_l_alias('jl1b', op, n, v, shape, seq))


def l_alias_ia(op: int, n: int, v: int, shape: int, seq: int) -> bool:
    """
    pre: 0 <= op < len(LIST_ALIAS_OPS)
    pre: N_LO <= n <= N_HI
    pre: 0 <= shape < NSHAPE
    pre: 0 <= seq < NSEQ
    post: _
    """
    return ok(_l_alias('ia', op, n, v, shape, seq))


def l_alias_sa(op: int, n: int, v: int, shape: int, seq: int) -> bool:
    """
    pre: 0 <= op < len(LIST_ALIAS_OPS)
    pre: N_LO <= n <= N_HI
    pre: 0 <= shape < NSHAPE
    pre: 0 <= seq < NSEQ
    post: _
    """
    return ok(_l_alias('sa', op, n, v, shape, seq))


def l_alias_fa(op: int, n: int, v: int, shape: int, seq: int) -> bool:
    """
    pre: 0 <= op < len(LIST_ALIAS_OPS)
    pre: N_LO <= n <= N_HI
    pre: 0 <= shape < NSHAPE
    pre: 0 <= seq < NSEQ
    post: _
    """
    return ok(_l_alias('fa', op, n, v, shape, seq))


def l_wn_jl0(op: int, lo: Opt[int], hi: Opt[int], v: int, shape: int, sq: int) -> bool:
    """
    pre: 0 <= op < len(LIST_ITER_OPS)
    pre: lo is None or SL_LO <= lo <= SL_HI
    pre: hi is None or SL_LO <= hi <= SL_HI
    pre: 0 <= shape < NSHAPE
    pre: 0 <= sq < NNONLIST
    post: _
    """
    return ok(_l_wn('jl0', op, lo, hi, v, shape, sq))


def l_wn_jl1(op: int, lo: Opt[int], hi: Opt[int], v: int, shape: int, sq: int) -> bool:
    """
    pre: 0 <= op < len(LIST_ITER_OPS)
    pre: lo is None or SL_LO <= lo <= SL_HI
    pre: hi is None or SL_LO <= hi <= SL_HI
    pre: 0 <= shape < NSHAPE
    pre: 0 <= sq < NNONLIST
    post: _
    """
    return ok(_l_wn('jl1', op, lo, hi, v, shape, sq))


def l_wn_jl2(op: int, lo: Opt[int], hi: Opt[int], v: int, shape: int, sq: int) -> bool:
    """
    pre: 0 <= op < len(LIST_ITER_OPS)
    pre: lo is None or SL_LO <= lo <= SL_HI
    pre: hi is None or SL_LO <= hi <= SL_HI
    pre: 0 <= shape < NSHAPE
    pre: 0 <= sq < NNONLIST
    post: _
    """
    return ok(_l_wn('jl2', op, lo, hi, v, shape, sq))


def l_wn_jl1b(op: int, lo: Opt[int], hi: Opt[int], v: int, shape: int, sq: int) -> bool:
    """
    pre: 0 <= op < len(LIST_ITER_OPS)
    pre: lo is None or SL_LO <= lo <= SL_HI
    pre: hi is None or SL_LO <= hi <= SL_HI
    pre: 0 <= shape < NSHAPE
    pre: 0 <= sq < NNONLIST
    post: _
    """
    return ok(_l_wn('jl1b', op, lo, hi, v, shape, sq))


def l_lazy_jl1(op: int, lo: Opt[int], hi: Opt[int]) -> bool:
    """
    pre: 0 <= op < len(LIST_ITER_OPS)
    pre: lo is None or SL_LO <= lo <= SL_HI
    pre: hi is None or SL_LO <= hi <= SL_HI
    post: _
    """
    return ok(_l_lazy('jl1', op, lo, hi))


def l_lazy_jl2(op: int, lo: Opt[int], hi: Opt[int]) -> bool:
    """
    pre: 0 <= op < len(LIST_ITER_OPS)
    pre: lo is None or SL_LO <= lo <= SL_HI
    pre: hi is None or SL_LO <= hi <= SL_HI
    post: _
    """
    return ok(_l_lazy('jl2', op, lo, hi))


def l_lazy_ia(op: int, lo: Opt[int], hi: Opt[int]) -> bool:
    """
    pre: 0 <= op < len(LIST_ITER_OPS)
    pre: lo is None or SL_LO <= lo <= SL_HI
    pre: hi is None or SL_LO <= hi <= SL_HI
    post: _
    """
    return ok(_l_lazy('ia', op, lo, hi))


def l_read_jl0(op: int, i: int, lo: Opt[int], hi: Opt[int], st: int, n: int, v: int, shape: int) -> bool:
    """
    pre: 0 <= op < len(LIST_READS)
    pre: IDX_LO <= i <= IDX_HI
    pre: lo is None or SL_LO <= lo <= SL_HI
    pre: hi is None or SL_LO <= hi <= SL_HI
    pre: 0 <= st < NSTEP
    pre: N_LO <= n <= N_HI
    pre: 0 <= shape < NSHAPE
    post: _
    """
    return ok(_l_read('jl0', op, i, lo, hi, st, n, v, shape))


def l_read_jl1(op: int, i: int, lo: Opt[int], hi: Opt[int], st: int, n: int, v: int, shape: int) -> bool:
    """
    pre: 0 <= op < len(LIST_READS)
    pre: IDX_LO <= i <= IDX_HI
    pre: lo is None or SL_LO <= lo <= SL_HI
    pre: hi is None or SL_LO <= hi <= SL_HI
    pre: 0 <= st < NSTEP
    pre: N_LO <= n <= N_HI
    pre: 0 <= shape < NSHAPE
    post: _
    """
    return ok(_l_read('jl1', op, i, lo, hi, st, n, v, shape))


def l_read_jl2(op: int, i: int, lo: Opt[int], hi: Opt[int], st: int, n: int, v: int, shape: int) -> bool:
    """
    pre: 0 <= op < len(LIST_READS)
    pre: IDX_LO <= i <= IDX_HI
    pre: lo is None or SL_LO <= lo <= SL_HI
    pre: hi is None or SL_LO <= hi <= SL_HI
    pre: 0 <= st < NSTEP
    pre: N_LO <= n <= N_HI
    pre: 0 <= shape < NSHAPE
    post: _
    """
    return ok(_l_read('jl2', op, i, lo, hi, st, n, v, shape))


def l_read_jl1b(op: int, i: int, lo: Opt[int], hi: Opt[int], st: int, n: int, v: int, shape: int) -> bool:
    """
    pre: 0 <= op < len(LIST_READS)
    pre: IDX_LO <= i <= IDX_HI
    pre: lo is None or SL_LO <= lo <= SL_HI
    pre: hi is None or SL_LO <= hi <= SL_HI
    pre: 0 <= st < NSTEP
    pre: N_LO <= n <= N_HI
    pre: 0 <= shape < NSHAPE
    post: _
    """
    return ok(_l_read('jl1b', op, i, lo, hi, st, n, v, shape))


def l_read_ia(op: int, i: int, lo: Opt[int], hi: Opt[int], st: int, n: int, v: int, shape: int) -> bool:
    """
    pre: 0 <= op < len(LIST_READS)
    pre: IDX_LO <= i <= IDX_HI
    pre: lo is None or SL_LO <= lo <= SL_HI
    pre: hi is None or SL_LO <= hi <= SL_HI
    pre: 0 <= st < NSTEP
    pre: N_LO <= n <= N_HI
    pre: 0 <= shape < NSHAPE
    post: _
    """
    return ok(_l_read('ia', op, i, lo, hi, st, n, v, shape))


def l_read_sa(op: int, i: int, lo: Opt[int], hi: Opt[int], st: int, n: int, v: int, shape: int) -> bool:
    """
    pre: 0 <= op < len(LIST_READS)
    pre: IDX_LO <= i <= IDX_HI
    pre: lo is None or SL_LO <= lo <= SL_HI
    pre: hi is None or SL_LO <= hi <= SL_HI
    pre: 0 <= st < NSTEP
    pre: N_LO <= n <= N_HI
    pre: 0 <= shape < NSHAPE
    post: _
    """
    return ok(_l_read('sa', op, i, lo, hi, st, n, v, shape))


def l_read_fa(op: int, i: int, lo: Opt[int], hi: Opt[int], st: int, n: int, v: int, shape: int) -> bool:
    """
    pre: 0 <= op < len(LIST_READS)
    pre: IDX_LO <= i <= IDX_HI
    pre: lo is None or SL_LO <= lo <= SL_HI
    pre: hi is None or SL_LO <= hi <= SL_HI
    pre: 0 <= st < NSTEP
    pre: N_LO <= n <= N_HI
    pre: 0 <= shape < NSHAPE
    post: _
    """
    return ok(_l_read('fa', op, i, lo, hi, st, n, v, shape))


def d_ops_jd0(op: int, k: int, v: int, shape: int, seq: int) -> bool:
    """
    pre: 0 <= op < len(DICT_OPS)
    pre: 0 <= k < 3
    pre: 0 <= shape < NSHAPE
    pre: 0 <= seq < NSEQ
    post: _
    """
    return ok(_d_ops('jd0', op, k, v, shape, seq))


def d_ops_jd1(op: int, k: int, v: int, shape: int, seq: int) -> bool:
    """
    pre: 0 <= op < len(DICT_OPS)
    pre: 0 <= k < 3
    pre: 0 <= shape < NSHAPE
    pre: 0 <= seq < NSEQ
    post: _
    """
    return ok(_d_ops('jd1', op, k, v, shape, seq))


def d_ops_jd2(op: int, k: int, v: int, shape: int, seq: int) -> bool:
    """
    pre: 0 <= op < len(DICT_OPS)
    pre: 0 <= k < 3
    pre: 0 <= shape < NSHAPE
    pre: 0 <= seq < NSEQ
    post: _
    """
    return ok(_d_ops('jd2', op, k, v, shape, seq))


def d_ops_jd1b(op: int, k: int, v: int, shape: int, seq: int) -> bool:
    """
    pre: 0 <= op < len(DICT_OPS)
    pre: 0 <= k < 3
    pre: 0 <= shape < NSHAPE
    pre: 0 <= seq < NSEQ
    post: _
    """
    return ok(_d_ops('jd1b', op, k, v, shape, seq))


def d_alias_jd0(op: int, k: int, v: int, shape: int, seq: int) -> bool:
    """
    pre: 0 <= op < len(DICT_ALIAS_OPS)
    pre: 0 <= k < 3
    pre: 0 <= shape < NSHAPE
    pre: 0 <= seq < NSEQ
    post: _
    """
    return ok(_d_alias('jd0', op, k, v, shape, seq))


def d_alias_jd1(op: int, k: int, v: int, shape: int, seq: int) -> bool:
    """
    pre: 0 <= op < len(DICT_ALIAS_OPS)
    pre: 0 <= k < 3
    pre: 0 <= shape < NSHAPE
    pre: 0 <= seq < NSEQ
    post: _
    """
    return ok(_d_alias('jd1', op, k, v, shape, seq))


def d_alias_jd2(op: int, k: int, v: int, shape: int, seq: int) -> bool:
    """
    pre: 0 <= op < len(DICT_ALIAS_OPS)
    pre: 0 <= k < 3
    pre: 0 <= shape < NSHAPE
    pre: 0 <= seq < NSEQ
    post: _
    """
    return ok(_d_alias('jd2', op, k, v, shape, seq))


def d_alias_jd1b(op: int, k: int, v: int, shape: int, seq: int) -> bool:
    """
    pre: 0 <= op < len(DICT_ALIAS_OPS)
    pre: 0 <= k < 3
    pre: 0 <= shape < NSHAPE
    pre: 0 <= seq < NSEQ
    post: _
    """
    return ok(_d_alias('jd1b', op, k, v, shape, seq))


def d_read_jd0(op: int, k: int, v: int, shape: int) -> bool:
    """
    pre: 0 <= op < len(DICT_READS)
    pre: 0 <= k < 3
    pre: 0 <= shape < NSHAPE
    post: _
    """
    return ok(_d_read('jd0', op, k, v, shape))


def d_read_jd1(op: int, k: int, v: int, shape: int) -> bool:
    """
    pre: 0 <= op < len(DICT_READS)
    pre: 0 <= k < 3
    pre: 0 <= shape < NSHAPE
    post: _
    """
    return ok(_d_read('jd1', op, k, v, shape))


def d_read_jd2(op: int, k: int, v: int, shape: int) -> bool:
    """
    pre: 0 <= op < len(DICT_READS)
    pre: 0 <= k < 3
    pre: 0 <= shape < NSHAPE
    post: _
    """
    return ok(_d_read('jd2', op, k, v, shape))


def d_read_jd1b(op: int, k: int, v: int, shape: int) -> bool:
    """
    pre: 0 <= op < len(DICT_READS)
    pre: 0 <= k < 3
    pre: 0 <= shape < NSHAPE
    post: _
    """
    return ok(_d_read('jd1b', op, k, v, shape))



def state_ops_jl1(op: int, state: int, v: int) -> bool:
    """
    pre: 0 <= op < len(LIST_OPS)
    pre: 1 <= state <= 3
    post: _
    """
    return ok(_state_ops('jl1', op, state, v))


def state_ops_jl0(op: int, state: int, v: int) -> bool:
    """
    pre: 0 <= op < len(LIST_OPS)
    pre: 1 <= state <= 3
    post: _
    """
    return ok(_state_ops('jl0', op, state, v))


def state_ops_jd1(op: int, state: int, v: int) -> bool:
    """
    pre: 0 <= op < len(DICT_OPS)
    pre: 1 <= state <= 3
    post: _
    """
    return ok(_state_ops('jd1', op, state, v))


def state_ops_jd0(op: int, state: int, v: int) -> bool:
    """
    pre: 0 <= op < len(DICT_OPS)
    pre: 1 <= state <= 3
    post: _
    """
    return ok(_state_ops('jd0', op, state, v))


def state_ops_ia(op: int, state: int, v: int) -> bool:
    """
    pre: 0 <= op < len(LIST_OPS)
    pre: 1 <= state <= 3
    post: _
    """
    return ok(_state_ops('ia', op, state, v))


def state_ops_sa(op: int, state: int, v: int) -> bool:
    """
    pre: 0 <= op < len(LIST_OPS)
    pre: 1 <= state <= 3
    post: _
    """
    return ok(_state_ops('sa', op, state, v))


HARNESSES = ['state_ops_jl1', 'state_ops_jl0', 'state_ops_jd1', 'state_ops_jd0', 'state_ops_ia', 'state_ops_sa', 'l_ops_jl0', 'l_ops_jl1', 'l_ops_jl2', 'l_ops_jl1b', 'l_ops_ia', 'l_ops_sa', 'l_ops_fa', 'l_slice_jl0', 'l_slice_jl1', 'l_slice_jl2', 'l_slice_jl1b', 'l_slice_ia', 'l_slice_sa', 'l_slice_fa', 'l_alias_jl0', 'l_alias_jl1', 'l_alias_jl2', 'l_alias_jl1b', 'l_alias_ia', 'l_alias_sa', 'l_alias_fa', 'l_wn_jl0', 'l_wn_jl1', 'l_wn_jl2', 'l_wn_jl1b', 'l_lazy_jl1', 'l_lazy_jl2', 'l_lazy_ia', 'l_read_jl0', 'l_read_jl1', 'l_read_jl2', 'l_read_jl1b', 'l_read_ia', 'l_read_sa', 'l_read_fa', 'd_ops_jd0', 'd_ops_jd1', 'd_ops_jd2', 'd_ops_jd1b', 'd_alias_jd0', 'd_alias_jd1', 'd_alias_jd2', 'd_alias_jd1b', 'd_read_jd0', 'd_read_jd1', 'd_read_jd2', 'd_read_jd1b']

if os.environ.get('C28_DEBUG'):
    import atexit
    _N = [0]
    _LOG = []
    _orig_mutate, _orig_read = mutate, read
    def _rec(t, table, op, A):
        from crosshair.core import realize
        from crosshair.tracers import NoTracing
        try:
            with NoTracing():
                _LOG.append((t, table[op][0], repr(sorted(A.done.items()))))
        except Exception as e:
            _LOG.append((t, 'ERR', repr(e)))
    def mutate(t, table, op, A):
        _N[0] += 1
        r = _orig_mutate(t, table, op, A)
        _rec(t, table, op, A)
        return r
    def read(t, table, op, A):
        _N[0] += 1
        r = _orig_read(t, table, op, A)
        _rec(t, table, op, A)
        return r
    def _dump():
        if _N[0] > 2:
            import collections
            with open('/tmp/c28_paths.log', 'a') as f:
                print('PATHS', _N[0], collections.Counter(x[:2] for x in _LOG).most_common(), file=f)
                print('  DUP', [kv for kv in collections.Counter(_LOG).most_common(5)], file=f)
    atexit.register(_dump)

