"""CrossHair harnesses for C28 (in-place changes to Json and array values are persisted; reads never mark).

What runs: the real `TrackedDict` / `TrackedList` / `TrackedArray` objects that pony builds when it loads a row
(`JsonConverter.dbval2val` / `ArrayConverter.dbval2val` -> `TrackedValue.make` / `TrackedArray`), attached to a real
object loaded from a real in-memory SQLite database inside a real `db_session` (one fresh session per explored path,
rolled back at the end), and the real `tracked_method` wrappers, `TrackedDict.update`, `TrackedArray.append/extend/
insert/__setitem__`, `validate_item`, `Entity._attr_changed_`, `Attribute.__set__`.

Symbolic: which operation is applied (index into the operation table), its arguments - list index, slice bounds and
step, key (index into a small key alphabet: two present keys and one absent), repeat count, the inserted integer
(unbounded), the *shape* of the inserted value (int / list / dict / nested) and the *shape of the iterable argument*
(list / tuple / iterator / tracked list ...).

Reference statement (not pony code):
  changed  := plain copy of the whole attribute value after the operation != plain copy before it
  M (mutation rule)  changed  =>  the attribute's bit is in obj._wbits_, obj._status_ == 'modified' and obj is queued in
                     cache.objects_to_save (that is what makes commit write the new value);  asserted whether or not the
                     operation raised.
  W (wrapping rule)  after the operation every dict/list reachable inside the attribute value is a tracked container bound
                     to the same object and attribute.  W is what makes M hold for *sequences* of operations by induction:
                     every state reachable by a mutation sequence satisfies W, and M is checked from states satisfying W.
                     A plain container left inside a tracked value can be changed later without any notification.
  R (read rule)      a reading operation leaves _wbits_, _status_, objects_to_save and cache.modified untouched.

Bounds (quick / thorough) are in the `pre:` lines; list C code (index arithmetic) is not symbolic - CrossHair realises an
index that is handed to `list.insert` etc., so indices are small ranges that cover "negative, inside, == len, beyond" for the
lists used.  Deviation from DESIGN.md: ordered *pairs* of operations are not enumerated; the wrapping rule W replaces them (a
pair can only go wrong when the first step leaves an untracked container or an unmarked change, and both are asserted
after every single step from a representative W-state at depth 0, 1 and 2).
"""
import operator
import os
from typing import Optional as Opt

from engine.ch import ok

THOROUGH = os.environ.get('C28_TIER') == 'thorough'
IDX_LO, IDX_HI = (-6, 6) if THOROUGH else (-2, 4)        # list index / slice bound range
N_LO, N_HI = (-1, 3) if THOROUGH else (0, 2)             # repeat count for *=
NSHAPE = 7 if THOROUGH else 4                            # value shapes
NSEQ = 6 if THOROUGH else 4                              # iterable-argument shapes

db = None
J = R = None
KEYS = ('a', 'b', 'z')          # 'a', 'b' are present in every target dict except jd2 ('b' only); 'z' is absent everywhere

DOC1 = {'a': [1, {'b': 2}, [3, 1]], 'b': {'a': 5, 'b': [6]}, 'c': 7}
DOC2 = [2, {'a': 1, 'b': [4]}, [3], 2]
TAGS = [3, 1, 2, 1]
NAMES = ['b', 'a', 'b']
VALS = [1.5, 0.5]


def setup():
    global db, J, R
    if db is not None:
        return
    from pony.orm import Database, PrimaryKey, Required, Optional, Json, IntArray, StrArray, FloatArray, db_session
    from pony.orm import core
    core.time = lambda: 0.0          # pony's QueryStat reads the clock; CrossHair would make it a fresh symbolic float
    db = Database()

    class J(db.Entity):
        id = PrimaryKey(int)
        data = Required(Json)
        other = Optional(int)

    class R(db.Entity):
        id = PrimaryKey(int)
        tags = Optional(IntArray)
        names = Optional(StrArray)
        vals = Optional(FloatArray)
    globals()['J'] = J
    globals()['R'] = R
    db.bind('sqlite', ':memory:')
    db.generate_mapping(create_tables=True)
    with db_session:
        J(id=1, data=DOC1)
        J(id=2, data=DOC2)
        R(id=1, tags=TAGS, names=NAMES, vals=VALS)


# target name -> (entity name, pk, attribute name, path from the attribute value to the container operated on)
TARGETS = {
    'jd0': ('J', 1, 'data', ()),            # top-level dict
    'jl1': ('J', 1, 'data', ('a',)),        # list one level down
    'jd1': ('J', 1, 'data', ('b',)),        # dict one level down
    'jd2': ('J', 1, 'data', ('a', 1)),      # dict two levels down
    'jl2': ('J', 1, 'data', ('a', 2)),      # list two levels down
    'jl0': ('J', 2, 'data', ()),            # top-level list
    'jd1b': ('J', 2, 'data', (1,)),         # dict inside a top-level list
    'jl1b': ('J', 2, 'data', (2,)),         # list inside a top-level list
    'ia': ('R', 1, 'tags', ()),             # IntArray
    'sa': ('R', 1, 'names', ()),            # StrArray
    'fa': ('R', 1, 'vals', ()),             # FloatArray
}


class Args(object):
    __slots__ = ('i', 'lo', 'hi', 'st', 'k', 'n', 'v', 'shape', 'seq', 'kind')

    def __init__(self, i=0, lo=None, hi=None, st=None, k=0, n=0, v=0, shape=0, seq=0, kind='json'):
        self.i, self.lo, self.hi, self.st, self.k, self.n, self.v, self.shape, self.seq, self.kind = i, lo, hi, st, k, n, v, shape, seq, kind


class Idx(object):
    """an item that is not an int but has __index__ (TrackedArray.validate_item converts it)"""
    def __init__(self, v): self.v = v
    def __index__(self): return self.v


def value(A):
    """the inserted value: shape picks its structure, A.v is the (symbolic) integer inside"""
    v, s = A.v, A.shape
    if A.kind == 'json':
        if s == 0: return v
        if s == 1: return [v]
        if s == 2: return {'a': v}
        if s == 3: return [{'a': [v]}, v]
        if s == 4: return None
        if s == 5: return 'a'
        return {'a': {'b': v}, 'z': []}
    if A.kind == 'int':
        if s == 0: return v
        if s == 1: return 'a'            # wrong item type: must be refused before anything changes
        if s == 2: return Idx(v)
        if s == 3: return True
        return 1.5                       # no __index__: refused
    if A.kind == 'str':
        if s == 0: return 'a' if v > 0 else 'c'
        if s == 1: return v              # wrong item type
        return 'b'
    if A.kind == 'float':
        if s == 0: return v * 0.5
        if s == 1: return 'a'            # wrong item type
        if s == 2: return v              # an int: accepted through __index__
        return 0.5
    raise AssertionError(A.kind)


def iterable(A, c):
    """the iterable argument of extend / slice assignment / += : seq picks the kind of iterable"""
    x = value(A)
    s = A.seq
    if s == 0: return [x]
    if s == 1: return (x,)
    if s == 2: return iter([x, x])
    if s == 3: return []
    if s == 4: return c                 # the tracked container itself
    return (y for y in (x,))


def mapping(A, c):
    """the argument of update / |= : seq picks dict / list of pairs / tuple of pairs / iterator / the container itself"""
    x = value(A)
    k = KEYS[A.k]
    s = A.seq
    if s == 0: return {k: x}
    if s == 1: return [(k, x)]
    if s == 2: return iter([(k, x), ('z', 0)])
    if s == 3: return {}
    if s == 4: return c
    return ((k, x),)


def _sl(A):
    return slice(A.lo, A.hi, A.st)


# ---- operation tables -------------------------------------------------------------------------------------------------
# Every entry applies ONE Python-level operation to the container `c`.  `t op= x` on a local name is exactly
# `t = operator.iop(t, x)`; the store into the local name is not observable, so the operator call is the whole statement.

def _stmt_iadd(c, A, o, name, parent, key):
    # the statement form  `obj.attr += x`  /  `parent[key] += x`  (load, in-place operator, store back)
    if parent is None: setattr(o, name, operator.iadd(getattr(o, name), iterable(A, c)))
    else: parent[key] = operator.iadd(parent[key], iterable(A, c))


def _stmt_imul(c, A, o, name, parent, key):
    if parent is None: setattr(o, name, operator.imul(getattr(o, name), A.n))
    else: parent[key] = operator.imul(parent[key], A.n)


def _stmt_ior(c, A, o, name, parent, key):
    if parent is None: setattr(o, name, operator.ior(getattr(o, name), mapping(A, c)))
    else: parent[key] = operator.ior(parent[key], mapping(A, c))


LIST_ITEM_OPS = [
    ('append', lambda c, A: c.append(value(A))),
    ('insert', lambda c, A: c.insert(A.i, value(A))),
    ('setitem', lambda c, A: c.__setitem__(A.i, value(A))),
    ('delitem', lambda c, A: c.__delitem__(A.i)),
    ('pop', lambda c, A: c.pop()),
    ('pop_i', lambda c, A: c.pop(A.i)),
    ('remove', lambda c, A: c.remove(value(A))),
]
LIST_BULK_OPS = [
    ('extend', lambda c, A: c.extend(iterable(A, c))),
    ('iadd', lambda c, A: operator.iadd(c, iterable(A, c))),           # t = obj.attr[...]; t += x
    ('imul', lambda c, A: operator.imul(c, A.n)),                      # t = obj.attr[...]; t *= n
    ('reverse', lambda c, A: c.reverse()),
    ('sort', lambda c, A: c.sort()),
    ('sort_reverse', lambda c, A: c.sort(reverse=True)),
    ('sort_key', lambda c, A: c.sort(key=lambda x: -x if isinstance(x, (int, float)) else 0)),
    ('clear', lambda c, A: c.clear()),
]
LIST_SLICE_OPS = [
    ('setslice', lambda c, A: c.__setitem__(_sl(A), iterable(A, c))),
    ('delslice', lambda c, A: c.__delitem__(_sl(A))),
]
LIST_STMT_OPS = [('stmt_iadd', _stmt_iadd), ('stmt_imul', _stmt_imul)]

DICT_OPS = [
    ('setitem', lambda c, A: c.__setitem__(KEYS[A.k], value(A))),
    ('delitem', lambda c, A: c.__delitem__(KEYS[A.k])),
    ('setdefault', lambda c, A: c.setdefault(KEYS[A.k])),
    ('setdefault_v', lambda c, A: c.setdefault(KEYS[A.k], value(A))),
    ('pop', lambda c, A: c.pop(KEYS[A.k])),
    ('pop_default', lambda c, A: c.pop(KEYS[A.k], None)),
    ('popitem', lambda c, A: c.popitem()),
    ('clear', lambda c, A: c.clear()),
    ('update', lambda c, A: c.update(mapping(A, c))),
    ('update_kw', lambda c, A: c.update(**{KEYS[A.k]: value(A)})),
    ('update_both', lambda c, A: c.update(mapping(A, c), z=value(A))),
    ('ior', lambda c, A: operator.ior(c, mapping(A, c))),              # t = obj.attr[...]; t |= x
]
DICT_STMT_OPS = [('stmt_ior', _stmt_ior)]

LIST_READS = [
    ('len', lambda c, A: len(c)),
    ('contains', lambda c, A: value(A) in c),
    ('getitem', lambda c, A: c[A.i]),
    ('getslice', lambda c, A: c[_sl(A)]),
    ('iter', lambda c, A: [x for x in c]),
    ('reversed', lambda c, A: list(reversed(c))),
    ('copy', lambda c, A: c.copy()),
    ('count', lambda c, A: c.count(value(A))),
    ('index', lambda c, A: c.index(value(A))),
    ('add', lambda c, A: c + [value(A)]),
    ('mul', lambda c, A: c * A.n),
    ('rmul', lambda c, A: A.n * c),
    ('eq', lambda c, A: c == [value(A)]),
    ('lt', lambda c, A: c < [value(A)]),
    ('repr', lambda c, A: repr(c)),
    ('bool', lambda c, A: bool(c)),
    ('get_untracked', lambda c, A: c.get_untracked()),
    ('list', lambda c, A: list(c)),
    ('sorted', lambda c, A: sorted(c, key=repr)),
    ('nested_read', lambda c, A: [len(x) for x in c if isinstance(x, (list, dict))]),
]
DICT_READS = [
    ('len', lambda c, A: len(c)),
    ('contains', lambda c, A: KEYS[A.k] in c),
    ('getitem', lambda c, A: c[KEYS[A.k]]),
    ('get', lambda c, A: c.get(KEYS[A.k])),
    ('get_default', lambda c, A: c.get(KEYS[A.k], value(A))),
    ('iter', lambda c, A: [x for x in c]),
    ('reversed', lambda c, A: list(reversed(c))),
    ('keys', lambda c, A: list(c.keys())),
    ('values', lambda c, A: list(c.values())),
    ('items', lambda c, A: list(c.items())),
    ('copy', lambda c, A: c.copy()),
    ('or', lambda c, A: c | {KEYS[A.k]: value(A)}),
    ('ror', lambda c, A: {KEYS[A.k]: value(A)} | c),
    ('eq', lambda c, A: c == {KEYS[A.k]: value(A)}),
    ('repr', lambda c, A: repr(c)),
    ('bool', lambda c, A: bool(c)),
    ('fromkeys', lambda c, A: c.fromkeys(['a'], value(A))),
    ('get_untracked', lambda c, A: c.get_untracked()),
    ('dict', lambda c, A: dict(c)),
    ('nested_read', lambda c, A: [len(x) for x in c.values() if isinstance(x, (list, dict))]),
]

# classification of every public name of list / dict (checked structurally in checks/c28.py against dir(list)/dir(dict) and
# against a concrete probe of plain containers): which table entries exercise it
LIST_NAMES = {
    '__setitem__': ['setitem', 'setslice'], '__delitem__': ['delitem', 'delslice'], '__iadd__': ['iadd', 'stmt_iadd'],
    '__imul__': ['imul', 'stmt_imul'], 'append': ['append'], 'extend': ['extend'], 'insert': ['insert'], 'pop': ['pop', 'pop_i'],
    'remove': ['remove'], 'reverse': ['reverse'], 'sort': ['sort', 'sort_reverse', 'sort_key'], 'clear': ['clear'],
}
LIST_READ_NAMES = {
    '__len__': ['len'], '__contains__': ['contains'], '__getitem__': ['getitem', 'getslice'], '__iter__': ['iter'],
    '__reversed__': ['reversed'], 'copy': ['copy'], 'count': ['count'], 'index': ['index'], '__add__': ['add'],
    '__mul__': ['mul'], '__rmul__': ['rmul'], '__eq__': ['eq'], '__lt__': ['lt'], '__repr__': ['repr'],
}
DICT_NAMES = {
    '__setitem__': ['setitem'], '__delitem__': ['delitem'], '__ior__': ['ior', 'stmt_ior'], 'setdefault': ['setdefault', 'setdefault_v'],
    'pop': ['pop', 'pop_default'], 'popitem': ['popitem'], 'clear': ['clear'], 'update': ['update', 'update_kw', 'update_both'],
}
DICT_READ_NAMES = {
    '__len__': ['len'], '__contains__': ['contains'], '__getitem__': ['getitem'], 'get': ['get', 'get_default'], '__iter__': ['iter'],
    '__reversed__': ['reversed'], 'keys': ['keys'], 'values': ['values'], 'items': ['items'], 'copy': ['copy'], '__or__': ['or'],
    '__ror__': ['ror'], '__eq__': ['eq'], '__repr__': ['repr'], 'fromkeys': ['fromkeys'],
}
# names that are not operations on an existing value (construction / class protocol / object protocol)
NOT_OPERATIONS = {'__class_getitem__', '__init__', '__new__', '__init_subclass__', '__subclasshook__', '__class__', '__doc__',
                  '__hash__', '__getattribute__', '__setattr__', '__delattr__', '__dir__', '__format__', '__getstate__',
                  '__reduce__', '__reduce_ex__', '__sizeof__', '__str__', '__ne__', '__le__', '__gt__', '__ge__'}


# ---- the common body --------------------------------------------------------------------------------------------------

def plain(x):
    if isinstance(x, dict): return {k: plain(v) for k, v in x.items()}
    if isinstance(x, (list, tuple)): return [plain(v) for v in x]
    return x


def wrapped(x, o, attr):
    from pony.orm.ormtypes import TrackedValue
    if isinstance(x, (dict, list)):
        if not (isinstance(x, TrackedValue) and x.obj_ref() is o and x.attr is attr): return False
        for y in (x.values() if isinstance(x, dict) else x):
            if not wrapped(y, o, attr): return False
    return True


def _fresh():
    from pony.orm import core
    core.local.db_context_counter = 0
    core.local.db_session = None
    core.rollback()


def _load(target):
    ename, pk, aname, path = TARGETS[target]
    E = J if ename == 'J' else R
    o = E[pk]
    root = getattr(o, aname)
    c, parent, key = root, None, None
    for step in path:
        parent, key = c, step
        c = c[step]
    return o, getattr(E, aname), aname, root, c, parent, key


def _queued(o):
    for x in o._session_cache_.objects_to_save:
        if x is o: return True
    return False


def mutate(target, table, op, A, check):
    """check: 'M' (mutation rule) or 'W' (wrapping rule)"""
    from pony.orm import db_session, rollback
    _fresh()
    with db_session:
        try:
            o, attr, aname, root, c, parent, key = _load(target)
            if not (o._wbits_ == 0 and o._status_ == 'loaded' and wrapped(root, o, attr)): return False
            before = plain(root)
            name, f = table[op]
            try:
                if name.startswith('stmt_'): f(c, A, o, aname, parent, key)
                else: f(c, A)
            except Exception:
                pass
            now = o._vals_[attr]
            if check == 'W':
                return wrapped(now, o, attr)
            if plain(now) == before:
                return True
            return bool(o._wbits_ & o._bits_[attr]) and o._status_ == 'modified' and _queued(o)
        finally:
            rollback()


def read(target, table, op, A):
    from pony.orm import db_session, rollback
    _fresh()
    with db_session:
        try:
            o, attr, aname, root, c, parent, key = _load(target)
            cache = o._session_cache_
            before = plain(root)
            try: table[op][1](c, A)
            except Exception: pass
            return (o._wbits_ == 0 and o._status_ == 'loaded' and not _queued(o) and not cache.modified
                    and not cache.objects_to_save and plain(o._vals_[attr]) == before)
        finally:
            rollback()


def probe_item(op: int, i: int, v: int, shape: int) -> bool:
    """
    pre: 0 <= op < len(LIST_ITEM_OPS)
    pre: IDX_LO <= i <= IDX_HI
    pre: 0 <= shape < NSHAPE
    post: _
    """
    return ok(mutate('jl1', LIST_ITEM_OPS, op, Args(i=i, v=v, shape=shape), 'M'))


def probe_bulk(op: int, n: int, v: int, shape: int, seq: int) -> bool:
    """
    pre: 0 <= op < len(LIST_BULK_OPS)
    pre: N_LO <= n <= N_HI
    pre: 0 <= shape < NSHAPE
    pre: 0 <= seq < NSEQ
    post: _
    """
    return ok(mutate('jl1', LIST_BULK_OPS, op, Args(n=n, v=v, shape=shape, seq=seq), 'M'))
