"""C08, attribute level: real mapped entities (in-memory SQLite), symbolic candidate value.

`Attribute.validate` / `Required.validate` are the functions every entry point
(constructor, assignment, set(), get()/select() keyword lookups) calls; the concrete
tie to those entry points is in checks/c08.py (tie_entry_points).
"""
import math
from typing import Optional as Opt
from engine.ch import ok

db = None
E = None


def setup():
    global db, E
    if db is not None:
        return
    from pony.orm import Database, PrimaryKey, Required, Optional
    db = Database()

    class E(db.Entity):
        id = PrimaryKey(int)
        r_int = Required(int, min=-3, max=7)
        r_zero = Required(int, min=0, max=0, default=0)
        o_int = Optional(int, max=10)
        u8 = Required(int, size=8, unsigned=True, default=1)
        even = Required(int, py_check=lambda v: v % 2 == 0, default=2)
        r_str = Required(str, 3, default='a')
        o_str = Optional(str, 3)
        o_str_n = Optional(str, 3, nullable=True)
        r_flt = Required(float, min=0, max=1.5, default=1.0)
    globals()['E'] = E
    db.bind('sqlite', ':memory:')
    db.generate_mapping(create_tables=True)


def _run(attr, val):
    try:
        return ('ok', attr.validate(val, None, E))
    except ValueError:
        return ('ValueError', None)
    except TypeError:
        return ('TypeError', None)


def attr_r_int(val: Opt[int]) -> bool:
    """ post: _ """
    r = _run(E.r_int, val)
    exp = ('ok', val) if val is not None and -3 <= val <= 7 else ('ValueError', None)
    return ok(r == exp)


def attr_r_zero(val: int) -> bool:
    """ post: _ """
    r = _run(E.r_zero, val)
    exp = ('ok', val) if val == 0 else ('ValueError', None)
    return ok(r == exp)


def attr_o_int(val: Opt[int]) -> bool:
    """ post: _ """
    r = _run(E.o_int, val)
    exp = ('ok', val) if val is None or -2 ** 31 <= val <= 10 else ('ValueError', None)
    return ok(r == exp)


def attr_u8(val: int) -> bool:
    """ post: _ """
    r = _run(E.u8, val)
    exp = ('ok', val) if 0 <= val <= 255 else ('ValueError', None)
    return ok(r == exp)


def attr_even(val: int) -> bool:
    """ post: _ """
    r = _run(E.even, val)
    exp = ('ok', val) if -2 ** 31 <= val < 2 ** 31 and val % 2 == 0 else ('ValueError', None)
    return ok(r == exp)


ALPHA = ' ab'


def attr_r_str(val: Opt[str]) -> bool:
    """
    pre: val is None or (len(val) <= 5 and all(c in ALPHA for c in val))
    post: _
    """
    r = _run(E.r_str, val)
    if val is None: exp = ('ValueError', None)
    else:
        n = val.strip()
        exp = ('ok', n) if 1 <= len(n) <= 3 else ('ValueError', None)
    return ok(r == exp)


def attr_o_str(val: Opt[str]) -> bool:
    """
    pre: val is None or (len(val) <= 5 and all(c in ALPHA for c in val))
    post: _
    """
    r = _run(E.o_str, val)
    if val is None: exp = ('ValueError', None)   # Optional(str) is not nullable: None is rejected, '' is the empty value
    else:
        n = val.strip()
        exp = ('ok', n) if len(n) <= 3 else ('ValueError', None)
    return ok(r == exp)


def attr_o_str_n(val: Opt[str]) -> bool:
    """
    pre: val is None or (len(val) <= 5 and all(c in ALPHA for c in val))
    post: _
    """
    r = _run(E.o_str_n, val)
    if val is None: exp = ('ok', None)
    else:
        n = val.strip()
        exp = ('ok', n) if len(n) <= 3 else ('ValueError', None)
    return ok(r == exp)


def attr_r_flt(val: float) -> bool:
    """
    pre: math.isfinite(val)
    post: _
    """
    r = _run(E.r_flt, val)
    exp = ('ok', val) if 0 <= val <= 1.5 else ('ValueError', None)
    return ok(r == exp)


HARNESSES = ['attr_r_int', 'attr_r_zero', 'attr_o_int', 'attr_u8', 'attr_even', 'attr_r_str', 'attr_o_str',
             'attr_o_str_n', 'attr_r_flt']
