"""C01 - declarative queries return what Python evaluation of the same expression returns (SQLite, real engine for replay).

Per enumerated query program: the real translator + real SQLite builder emit SQL text; the text is parsed and evaluated
over a symbolic database (engine/symsql/sqlsem.py); the program's source is evaluated by the Python-semantics oracle
(engine/symsql/pysem.py) over the same symbolic database; z3 decides whether ANY database contents / parameter values
within the bound make the two row sets differ.  Counterexamples are replayed on a real SQLite database through pony.
"""
import ast, itertools, json, random, time
import z3
from engine.core import Report, Ob, HOLDS, CEX, REJECTED, INCONCLUSIVE, load_known
from engine import env as E0
from engine.symsql import e1, symdb, sqlsem, pysem
from engine.symsql.e1 import Program
from pony.orm import exists, count          # module-level names used inside hybrid methods of the schema below

_cache = {}


def define_entities(db):
    from pony.orm import Required, Optional, Set, PrimaryKey
    from datetime import date
    class G(db.Entity):
        id = PrimaryKey(int)
        name = Required(str)
        n = Optional(int)
        ps = Set('P')
        tags = Set('T')
        @property
        def size(self): return len(self.ps)
        def has_big(self, x): return exists(p for p in self.ps if p.a > x)
    class T(db.Entity):
        id = PrimaryKey(int)
        w = Required(int)
        d = Optional(date)
        gs = Set(G)
    class P(db.Entity):
        id = PrimaryKey(int)
        a = Required(int, size=64)
        b = Optional(int, size=64)
        f = Required(bool)
        h = Optional(bool)
        s = Required(str)
        u = Optional(str, nullable=True)
        g = Optional(G)
        # hybrid properties and methods: pony inlines their bodies into the query
        @property
        def a2(self): return self.a * 2
        @property
        def label(self): return self.s + 'a'
        @property
        def has_b(self): return self.b is not None
        def bigger(self, x): return self.a > x
        def between_ab(self, x): return self.a <= x and (self.b is None or x < self.b)
        def gname(self): return self.g.name


def get_db(pname='sqlite'):
    if pname in _cache: return _cache[pname]
    db = E0.sqlite_memory_database() if pname == 'sqlite' else E0.mock_database(pname)
    define_entities(db)
    db.generate_mapping(check_tables=False, create_tables=(pname == 'sqlite'))
    _cache[pname] = db
    return db


INT = lambda v=1: ('int', v)
STR = lambda v='a': ('str', v)

# --------------------------------------------------------------------------------------------------------------------
# program enumeration
INT_TERMS = ['p.a', 'p.b', 'x', '1', '0', '-1', 'p.a + 1', 'p.a - p.b', 'p.a * 2', '-p.a', 'abs(p.b)', 'len(p.s)', 'p.g.n']
STR_TERMS = ['p.s', 'p.u', "'a'", 'y', 'p.g.name', "p.s + 'a'", 'p.s.upper()', 'p.s[0]', 'p.s[1:]', 'p.s[:x]']
CMP = ['==', '!=', '<', '<=', '>', '>=']


def atoms():
    out = []
    for l, r in [('p.a', 'x'), ('p.a', 'p.b'), ('p.b', '1'), ('p.a', '0'), ('p.b', 'p.a + 1'), ('p.g.n', 'p.a'), ('len(p.s)', 'x'), ('p.a - p.b', '0'),
                 ('-p.a', 'p.b'), ('p.a * 2', 'x'), ('abs(p.b)', '1')]:
        for op in CMP: out.append('%s %s %s' % (l, op, r))
    for l, r in [('p.s', 'y'), ('p.u', 'y'), ('p.s', "'a'"), ('p.g.name', 'y'), ('p.s', 'p.u'), ("p.s + 'a'", 'y'), ('p.s[0]', "'a'"),
                 ('p.s[1:]', 'y'), ('p.s.upper()', 'y'), ('p.s[:x]', 'y'), ('p.s[x:]', 'p.u')]:
        for op in ('==', '!=', '<', '>='): out.append('%s %s %s' % (l, op, r))
    out += ['p.b is None', 'p.b is not None', 'p.u is None', 'p.g is None', 'p.g is not None', 'p.b == None', 'p.u != None', 'p.g.n is None',
            'p.h', 'not p.h', 'p.h is None', 'p.h == p.f', 'p.h != True', 'p.h and p.a > x', 'not p.h or p.b is None', 'not (p.h and p.f)', 'p.h == None', 'p.f and not p.h',
            'p.f', 'p.b', 'p.a', 'p.u', 'p.s', 'p.g', 'p.g.n', 'not p.f', 'not p.b', 'not p.u', 'not p.g', 'not p.a',
            'p.a in (1, 2)', 'p.b in (0, x)', 'p.b not in (1, x)', 'p.a not in (0, 1)', "p.s in ('a', y)", "p.u not in ('a', 'b')",
            "p.s.startswith(y)", "p.s.endswith(y)", "y in p.s", "p.u.startswith('a')", "'a' in p.u", "p.s.startswith('a')", "p.s.endswith('%')",
            "'_' in p.s", "y not in p.s", "p.u in p.s", "p.s.startswith(p.u)",
            '0 < p.a < x', 'p.b < p.a <= x', 'x <= p.b < 3', 'p.a == p.b == x',
            'p.a // 2 == x', 'p.a % 3 == x', 'p.b // 2 > 0', 'p.a % 2 == 1', 'p.b % 2', '(p.a + p.b) // 2 == x', 'p.a // -2 == x', 'p.a % -3 == x',
            'p.a / 2 > x', 'p.b / 2 == 1',
            '(p.a if p.f else p.b) == x', '(p.b if p.b else 0) > x', "(p.u if p.u else 'a') == y",
            'max(p.a, p.b) == x', 'min(p.a, 0) < x', 'coalesce(p.b, 0) == x', "coalesce(p.u, 'a') == y", 'coalesce(p.b, p.a) > 0',
            'p.g.name == y', 'p.g.n > p.a', 'p.g == None', 'p.g.n is not None',
            'len(p.g.ps) > x', 'count(p.g.ps) == 1',
            'p.a2 > x', 'p.a2 == p.b', 'p.label == y', 'p.label.startswith(y)', 'p.has_b', 'not p.has_b', 'p.bigger(x)', 'not p.bigger(x)', 'p.bigger(p.b)', 'p.between_ab(x)',
            'not p.between_ab(x)', 'p.gname() == y', 'p.bigger(x) or p.has_b', 'p.g.size > x', 'p.a2 // 3 == x',
            # strip family, between / concat / str / power, memberships over columns, tuple comparisons, tuple parameters
            'p.s.strip() == y', "p.s.lstrip('a') == y", "p.s.rstrip(y) == 'a'", 'p.u.strip() == y', 'p.s.strip(p.u) == y', "p.s.rstrip() == p.s.lstrip()",
            'p.s.lower() == y', 'p.s.upper() == p.s.lower()',
            'between(p.a, 0, x)', 'between(p.b, p.a, x)', 'between(x, p.a, p.b)', "between(p.s, 'a', y)",
            "concat(p.s, y) == 'ab'", 'concat(p.s, p.a) == y', "concat(y, p.s, 'a') == p.u", 'str(p.a) == y', 'str(p.a) + p.s == y',
            'p.a ** 2 == x', 'p.b ** 2 > p.a', 'p.a ** 3 < x',
            'x in (p.a, p.b)', 'p.a in (p.b, 1)', 'p.a not in (p.b, x)', "y in (p.s, p.u)", "p.s not in (p.u, 'a')",
            '(p.a, p.b) == (x, 1)', '(p.a, p.s) != (x, y)', '(p.a, p.b) in ((1, 2), (x, 3))', '(p.a, p.b) == z', '(p.a, p.b) != z',
            'p.a in z', 'p.b not in z', 'p.b in z',
            'p.a not in ()', 'p.a in ()', 'p.b not in []', 'p.a in e', 'p.b not in e', "p.s not in ()",
            '(p.a, p.b) in ((q.a, q.b) for q in P if q.f)', '(p.a, p.b) not in ((q.a, q.b) for q in P if q.f)', '(p.a, p.s) not in ((q.b, q.u) for q in P)',
            '(p.g.n, p.a) in ((g.n, g.id) for g in G)', '(p.b, p.u) not in ((q.a, q.s) for q in P if q.b is None)',
            # conditional expressions nested in the else / then branch (flattened into one CASE by the builder)
            '(p.a if p.f else (p.b if p.h else 0)) == x', '(1 if p.a > x else (2 if p.a > 0 else 3)) == 2', "(p.s if p.f else (p.u if p.h else 'a')) == y",
            '((p.a if p.h else p.b) if p.f else 0) > x', '(p.a if p.b is None else (p.b if p.b > p.a else (x if p.f else 0))) == x',
            # per-row string index
            'p.s[p.a] == y', "p.s[p.a - 1] == 'a'", 'p.s[p.b] != y', 'p.s[-p.a] == y', 'p.s[len(p.s) - 1] == y', 'p.u[p.a] == p.s[0]',
            ]
    return out


def t_atoms():
    # paths over two collection hops whose items are reached along one path each (many-to-many, then one-to-many)
    return ['count(t.gs.ps) > x', 'len(t.gs.ps) == x', 'x in t.gs.ps.a', 'x not in t.gs.ps.b', 'sum(t.gs.ps.a) > x', 'max(t.gs.ps.b) == x', 'min(t.gs.ps.a) < x', 't.gs.ps', 'not t.gs.ps',
            'exists(p for p in t.gs.ps if p.a > x)', 'count(t.gs.ps) > count(t.gs)', 'len(t.gs) == x', 'sum(t.gs.n) > x', 'x in t.gs.n', 't.w in t.gs.ps.a',
            # calendar dates: parts, comparisons with a parameter and with a constant
            't.d.year == x', 't.d.month > x', 't.d.day == t.w', 't.d < dd', 't.d == dd', 't.d is None', 't.d >= date(2020, 2, 3)', 't.d.year == dd.year', 't.d != dd or t.d.month == x',
            't.d.year * 100 + t.d.month == x', 'dd <= t.d',
            'exists(g for g in t.gs if len(g.ps) > x)', 'not exists(g for g in t.gs if g.n is None)', 'x in t.gs.tags.w', 'not t.gs.tags', 'max(t.gs.tags.w) > t.w']


def g_atoms():
    return ['len(g.ps) > x', 'count(g.ps) == x', 'g.ps', 'not g.ps', 'exists(p for p in g.ps if p.a > x)', 'x in g.ps.a', 'x not in g.ps.b',
            'sum(g.ps.a) > x', 'sum(p.b for p in g.ps) == x', 'max(g.ps.a) == x', 'min(p.b for p in g.ps) < x', 'max(g.ps.b) is None',
            'sum(g.ps.b) == 0', 'avg(g.ps.a) > x', 'g.n in g.ps.b', 'g.n not in g.ps.a', 'exists(p for p in P if p.g == g and p.b is None)',
            'g in (p.g for p in P if p.a > x)', 'g.n == max(p.a for p in P)', 'g.n < sum(p.a for p in P if p.g == g)',
            "g.name in (p.s for p in g.ps)", "exists(p for p in g.ps if p.s.startswith(g.name))", 'g.ps.select(lambda p: p.a > x)',
            'g.ps.count() > x', 'g.ps.is_empty()', 'count(p for p in g.ps if p.f) == x', 'not exists(p for p in g.ps if not p.b)',
            'g.n is None and not g.ps', 'len(g.ps) == len(g.name)', 'g.size > x', 'g.size == len(g.tags)', 'g.has_big(x)', 'not g.has_big(x)', 'g.has_big(g.n)',
            # JOIN() hint: the same value through a joined, grouped subselect
            'JOIN(sum(g.ps.b)) == 0', 'JOIN(sum(g.ps.a)) < x', 'JOIN(count(g.ps)) > x', 'JOIN(max(g.ps.a)) == x', 'JOIN(len(g.tags)) > x', 'JOIN(min(g.ps.b)) is None',
            'sum((1 if p.f else (2 if p.h else 0)) for p in g.ps) == x',
            # many-to-many
            'g.tags', 'not g.tags', 'len(g.tags) > x', 'count(g.tags) == x', 'x in g.tags.w', 'x not in g.tags.w', 'sum(g.tags.w) > x', 'max(g.tags.w) == x',
            'exists(t for t in g.tags if t.w > x)', 'not exists(t for t in g.tags if t.w == g.n)', 'g.tags.count() == len(g.ps)', 'g.tags.is_empty()',
            'exists(t for t in T if g in t.gs and t.w == x)', 'len(g.tags) > len(g.ps)', 'min(t.w for t in g.tags) < x', 'g.n in g.tags.w']


import datetime as _dt
SCOPE = {'x': INT(1), 'y': STR('a'), 'z': ('tuple', (1, 2)), 'e': ('tuple', ()), 'dd': ('date', _dt.date(2020, 1, 2))}


def programs(tier, rng):
    A = atoms()
    progs = []
    def add(src, note=''):
        sc = {k: v for k, v in SCOPE.items() if k in {n.id for n in ast.walk(ast.parse(src)) if isinstance(n, ast.Name)}}
        progs.append(Program(src, sc, 'string', note))
    for a in A:
        add('(p for p in P if %s)' % a, 'atom')
        add('(p for p in P if not (%s))' % a, 'not-atom')
    # projections
    for e in INT_TERMS + STR_TERMS + ['p.f', 'p.g', '(p.a, p.b)', '(p.s, p.g)', '(p.g.name, p.a)', 'p.a // 2', 'p.a % 3', 'p.b // 2', 'p.a / 2',
                                      'p.a if p.f else p.b', 'coalesce(p.b, 0)', 'max(p.a, p.b)', '(p.id, len(p.g.ps))', 'p.b is None', 'p.a > 1']:
        add('(%s for p in P)' % e, 'projection')
        add('(%s for p in P if p.b is not None)' % e, 'projection-filtered')
    # operator nesting (parenthesisation in the builder): every ordered pair of arithmetic operators, both groupings
    ops = ['+', '-', '*', '//', '%']
    DIV = ('//', '%')
    for o1 in ops:
        for o2 in ops:
            # divisors are kept constant (a symbolic divisor makes the query non-linear and z3 gives up)
            right = '(2 %s 3)' % o2 if o1 in DIV else ('(p.b %s 3)' % o2)
            add('((p.id, p.a %s %s) for p in P)' % (o1, right), 'nesting')
            left = '(p.a %s 2)' % o1 if o1 in DIV else '(p.a %s p.b)' % o1
            add('((p.id, %s %s %s) for p in P)' % (left, o2, '3' if o2 in DIV else 'x'), 'nesting')
    # non-linear nestings (a symbolic divisor / product of two columns): decided on the bounded range [-4, 4]
    for e in ['p.a // (p.b * 3)', 'p.a % (p.b * 2)', 'p.a / (p.b * 2)', 'p.a // (p.b + x)', '(p.a * p.b) // 3', 'p.a * (p.b // 2)', 'p.a - (p.b * x)', '(p.a - p.b) * x',
              'p.a * p.b * x', 'p.a // p.b // 2', 'p.a % p.b % 3', 'p.a // (p.b // 2)', 'p.a % (p.b % 3)']:
        progs.append(Program('((p.id, %s) for p in P)' % e, {'x': INT(1)} if 'x' in e else {}, 'string', 'nesting', int_range=(-4, 4)))
    for e in ['-(p.a + p.b)', '-(p.a * 2)', '-p.a * 3', '-(p.a - x) - p.b', 'p.a - -p.b', 'abs(p.a - p.b) * 2', 'p.a / (2 * 3)', '(p.a / 2) * 3']:
        add('((p.id, %s) for p in P)' % e, 'nesting')
    # pairs combined with and / or / not
    pairs = list(itertools.combinations(A, 2))
    rng.shuffle(pairs)
    npairs = 150 if tier == 'quick' else 2500
    for a, b in pairs[:npairs]:
        t = rng.choice(['%s and %s', '%s or %s', 'not (%s and %s)', 'not (%s or %s)', '%s and not (%s)', '(%s) == (%s)' if False else '%s or not (%s)'])
        add('(p for p in P if %s)' % (t % (a, b)), 'pair')
    triples = [rng.sample(A, 3) for _ in range(60 if tier == 'quick' else 1500)]
    for a, b, c in triples:
        t = rng.choice(['(%s or %s) and %s', '%s and %s and %s', 'not (%s and (%s or %s))', '(%s and %s) or not (%s)'])
        add('(p for p in P if %s)' % (t % (a, b, c)), 'triple')
    # group side: collections, aggregates, subqueries
    for a in g_atoms():
        add('(g for g in G if %s)' % a, 'g-atom')
        add('(g for g in G if not (%s))' % a, 'g-not-atom')
    # the JOIN() hint around a membership test is documented for positive conditions only (negated, the inner join it asks for
    # changes the meaning: observed, `not JOIN(x in g.ps.a)` drops groups without items); only the positive form is enumerated
    add('(g for g in G if JOIN(x in g.ps.a))', 'g-atom')
    add('(g for g in G if JOIN(x in g.ps.a) and g.n > 0)', 'g-atom')
    for a in t_atoms():
        add('(t for t in T if %s)' % a, 't-atom')
        add('(t for t in T if not (%s))' % a, 't-not-atom')
    for e in ['(t.id, count(t.gs.ps))', '(t.id, sum(t.gs.ps.a), len(t.gs))', '(t.id, max(t.gs.ps.b))', '(t.id, t.w, len(t.gs))', '(t.id, t.d)', 't.d.month', '(t.d.year, t.d.day, t.id)']:      # (grouping columns include the key: one group per object)
        add('(%s for t in T)' % e, 't-projection')
    # a select list consisting ONLY of aggregates is a grand-total query in pony (documented aggregate-query form), which has no
    # per-row Python counterpart: aggregates appear next to a non-aggregate column here
    for e in ['(g.id, len(g.ps))', '(g, sum(g.ps.a))', '(g.id, max(g.ps.b))', '(g.id, min(p.a for p in g.ps))', '(g.id, count(p for p in g.ps if p.f))', 'g.name', 'g.n',
              '(g.id, g.name, len(g.ps))', '(g.id, sum(p.b for p in g.ps if p.a > x))', '(g.id, avg(g.ps.a))']:
        add('(%s for g in G)' % e, 'g-projection')
    # two iteration variables
    for c in ['p.a > x', 'p.b is None', 'p.f and g.n', 'p.a == g.n', 'not p.b or g.n > x', 'p.s.startswith(g.name)']:
        add('(p for g in G for p in g.ps if %s)' % c, 'join')
        add('(g for g in G for p in g.ps if %s)' % c, 'join')
        add('((g.name, p.a) for g in G for p in g.ps if %s)' % c, 'join')
        add('((p, g) for p in P for g in G if p.g == g and %s)' % c, 'join')
        add('(p for p in P for g in G if p.a == g.n and %s)' % c, 'join')
        add('((g, p.f) for g in G for p in g.ps if %s)' % c, 'join')
        add('(p.f for g in G for p in g.ps if %s)' % c, 'join')
        add('((g.name, p.f) for g in G for p in g.ps if %s)' % c, 'join')
    for c in ['t.w > x', 'g.n == t.w', 'g.n is None or t.w == x', 'not g.ps']:
        add('(g for g in G for t in g.tags if %s)' % c, 'join')
        add('(t for t in T for g in t.gs if %s)' % c, 'join')
        add('((g.id, t.w) for g in G for t in g.tags if %s)' % c, 'join')
        add('(t.w for g in G for t in g.tags if %s)' % c, 'join')
        add('((g, t) for t in T for g in G if g in t.gs and %s)' % c, 'join')
    for e in ['(t.id, len(t.gs))', '(t.id, sum(t.gs.n))', 't.w', '(t.id, count(g for g in t.gs if g.n))']:
        add('(%s for t in T)' % e, 'g-projection')
    if tier == 'quick':
        core = [p for p in progs if p.note in ('atom', 'not-atom', 'g-atom', 'g-not-atom', 'join', 'nesting')]
        rest = [p for p in progs if p.note not in ('atom', 'not-atom', 'g-atom', 'g-not-atom', 'join', 'nesting')]
        progs = core + rest
    seen = set(); out = []
    for p in progs:
        if p.src in seen: continue
        seen.add(p.src); out.append(p)
    return out


# --------------------------------------------------------------------------------------------------------------------
def classify(prog, res):
    src = prog.src
    t = ast.parse(src, mode='eval').body
    feats = set()
    for n in ast.walk(t):
        if isinstance(n, ast.BinOp) and isinstance(n.op, (ast.FloorDiv, ast.Mod)): feats.add('floor-div-mod')
        if isinstance(n, ast.BinOp) and isinstance(n.op, ast.Div): feats.add('true-div')
        if isinstance(n, ast.Subscript): feats.add('subscript')
    return '+'.join(sorted(feats)) or 'plain'


def replay(pname, prog, model):
    """real SQLite through pony with the model's rows; reproduced iff the real rows differ from the oracle's rows"""
    db = get_db(pname)
    e1.populate(db, model['tables'])
    try:
        real = e1.run_real(db, prog, model['scope'], model.get('colnames'))
    except Exception as ex:
        return None, 'real query raised %s: %s' % (type(ex).__name__, str(ex)[:100]), None
    real_n, py_n, pred_n = e1.norm_rows(real), e1.norm_rows(model['python_rows']), e1.norm_rows(model['sql_rows_predicted'])
    real_l, pred_l = e1.norm_list(real), e1.norm_list(model['sql_rows_predicted'])
    if real_l != pred_l:
        return False, 'SQL model disagrees with the real engine: real=%r predicted=%r (harness error)' % (real_l, pred_l), real_n
    if real_n == py_n and len(real_l) != len(real_n):
        return True, 'real result contains duplicates %r; the documented result is duplicate-free %r' % (real_l, py_n), real_n
    return real_n != py_n, 'real rows %r, python-semantics rows %r' % (real_n, py_n), real_n


REPLAY = '''# C01 counterexample replay: real pony + real SQLite on the solver's database
import sys; sys.path.insert(0, '/verif')
from checks import c01
from engine.symsql.e1 import Program
prog = Program(%(src)r, %(scope)r, %(form)r)
model = %(model)r
rep, how, real = c01.replay('sqlite', prog, model)
print(prog.src); print('tables:', model['tables']); print('scope:', model['scope']); print(how)
sys.exit(1 if rep else 0)
'''


def check_program(db, S, prog, dialect, pname, timeout_ms, validate=True, exclude=()):
    """exclude: known-finding keys of ANOTHER property whose input regions are assumed away (they are not this check's subject)"""
    name = '%s: %s%s' % (dialect, prog.src, ' [generator object]' if prog.form == 'generator' else '')
    res = e1.decide(db, S, prog, dialect, timeout_ms, exclude_regions=exclude)
    v = res['verdict']
    obs = []
    if v == 'rejected': return [Ob(name, 'z3', REJECTED, detail=res['detail'])]
    if v == 'unmodelled':
        if pname == 'sqlite':
            # does the real engine accept the statement at all?  A database error is the property's "raises an error instead"
            try:
                e1.run_real(db, prog, {})
            except Exception as ex:
                if type(ex).__name__ in ('OperationalError', 'ProgrammingError', 'DatabaseError', 'InterfaceError'):
                    return [Ob(name, 'z3', REJECTED, detail='the database rejects the generated SQL: %s: %s' % (type(ex).__name__, str(ex)[:100]))]
        return [Ob(name, 'z3', INCONCLUSIVE, detail='unmodelled: ' + res['detail'])]
    if v == 'unknown': return [Ob(name, 'z3', INCONCLUSIVE, detail=res.get('detail', '') + ' | ' + (res.get('sql') or ''), time_s=res['time_s'])]
    if v == 'unsat':
        ob = Ob(name, 'z3', HOLDS, detail=res['sql'], time_s=res['time_s'])
        obs.append(ob)
        if validate and pname == 'sqlite':
            # encoder validation: a model of the assumptions alone, executed on the real engine, must match the SQL model
            s = res['solver']; s.pop()
            if s.check() == z3.sat:
                md = e1.model_dump(S, res['enc'], s.model())
                rep, how, real = replay(pname, prog, md)
                if rep is not False and rep is not None and rep:
                    pass
                if rep is False and 'harness error' in how:
                    obs.append(Ob(name + ' [encoder validation]', 'concrete-tie', CEX, detail=how, cex=md, reproduced=False))
        return obs
    # sat
    if res.get('always_error'):
        return [Ob(name, 'z3', CEX, detail=res['detail'], cex={'program': prog.src}, reproduced=None, key='always-error')]
    known = {e['key'] for e in load_known(PID)}
    enc, solver = res['enc'], res['solver']
    regions = {k: z3.Or(v) for k, v in enc['regions'].items() if k in known}
    shape = shape_key(prog)
    if shape in known: regions[shape] = z3.BoolVal(True)
    out = []
    m = res['z3model']
    for _ in range(len(regions) + 1):
        md = e1.model_dump(S, enc, m)
        if pname == 'sqlite': rep_, how, real = replay(pname, prog, md)
        else: rep_, how, real = None, 'model-only (no server for %s)' % dialect, None
        if rep_ is False and ('upper()' in prog.src or 'lower()' in prog.src):
            # upper()/lower() are uninterpreted in the encoding: a model that relies on a made-up case mapping cannot be replayed
            out.append(Ob(name, 'z3', INCONCLUSIVE, detail='counterexample depends on the uninterpreted case mapping: ' + how))
            break
        hit = [k for k, p in sorted(regions.items()) if symdb.mtrue(m, p)]
        key = hit[0] if hit else classify(prog, res)
        ob = Ob(name + (' [%s]' % key if hit else ''), 'z3', CEX, detail='%s | %s' % (res['sql'], how),
                cex={'program': prog.src, 'scope': md['scope'], 'tables': md['tables'], 'python_rows': md['python_rows'],
                     'sql_rows': md['sql_rows_predicted']}, time_s=res['time_s'], reproduced=rep_, key=key)
        ob.replay = REPLAY % dict(src=prog.src, scope=prog.scope, form=prog.form, model=md)
        out.append(ob)
        if not hit: break
        # exclude the recorded finding's input region and ask again: anything outside it is a new violation
        solver.add(z3.Not(regions.pop(hit[0])))
        r = solver.check()
        if r == z3.unsat: break
        if r != z3.sat:
            out.append(Ob(name + ' [outside known regions]', 'z3', INCONCLUSIVE, detail='solver: %s' % r))
            break
        m = solver.model()
    return out


PID = 'C01'


def shape_key(prog):
    """known findings that are tied to a program shape rather than to an input region"""
    t = ast.parse(prog.src, mode='eval').body
    if prog.form == 'generator':
        # conditional expressions next to and/or are mis-decompiled (recorded for C03): the generator spelling of such a program
        # is translated from the wrong tree
        parents = {}
        for n in ast.walk(t):
            for ch in ast.iter_child_nodes(n): parents[ch] = n
        for n in ast.walk(t):
            if isinstance(n, ast.IfExp) and (not isinstance(parents.get(n), ast.GeneratorExp) or t.generators[0].ifs): return 'generator-spelling-misdecompiled'
    parts = t.elt.elts if isinstance(t.elt, ast.Tuple) else [t.elt]
    for part in parts:
        for n in ast.walk(part):
            if isinstance(n, ast.Call) and isinstance(n.func, ast.Name) and n.func.id in ('len', 'count', 'sum', 'min', 'max', 'avg') and n.args:
                a = n.args[0]
                if isinstance(a, ast.Attribute) and isinstance(a.value, ast.Attribute):
                    return 'aggregate-through-reference-in-projection'
    return None


def _shard_worker(args):
    """runs in a worker process: a shard of programs against its own Database / symbolic schema"""
    idxs, progs, (pname, dialect, R, t_limit, pid, validate, exclude) = args
    global PID
    PID = pid
    if pname != 'sqlite': E0.install_driver_stubs()
    db = get_db(pname)
    S = symdb.build(db, R=R, strlen=3)
    out = []
    for i, prog in zip(idxs, progs):
        try:
            obs = check_program(db, S, prog, dialect, pname, t_limit, validate=validate, exclude=exclude)
            obs += generator_spelling(db, S, prog, dialect, pname, t_limit, validate, exclude)
        except Exception as ex:
            import traceback
            obs = [Ob('%s: %s' % (dialect, prog.src), 'z3', INCONCLUSIVE, detail='harness exception: %s' % traceback.format_exc()[-400:])]
        out.append((i, obs))
    return out


def generator_spelling(db, S, prog, dialect, pname, t_limit, validate, exclude):
    """the same program as a live generator object (bytecode -> decompiler -> translator): when that path yields different SQL
    text than the string spelling (the decompiler normalises negations through De Morgan), the text is a second translation
    of the same source and gets its own obligation; identical text needs no second query"""
    from pony.orm import db_session
    if prog.form != 'string' or prog.chain: return []
    g = Program(prog.src, prog.scope, 'generator', prog.note, int_range=prog.int_range)
    try:
        with db_session:
            s1 = e1.real_sql(db, e1.build_query(db, prog))[0]
    except Exception:
        return []
    try:
        with db_session:
            s2 = e1.real_sql(db, e1.build_query(db, g))[0]
    except Exception as ex:
        return [Ob('%s: %s [generator object]' % (dialect, prog.src), 'z3', REJECTED, detail='%s: %s' % (type(ex).__name__, str(ex)[:100]))]
    if s1 == s2: return []
    return check_program(db, S, g, dialect, pname, t_limit, validate=validate, exclude=exclude)


def _queue_worker(wid, task_q, res_q, cfg):
    """worker process of sharded(): announces every program before it starts so that the parent can enforce a wall-clock limit"""
    pname, dialect, R, t_limit, pid, validate, exclude = cfg
    global PID
    PID = pid
    if pname != 'sqlite': E0.install_driver_stubs()
    db = get_db(pname)
    S = symdb.build(db, R=R, strlen=3)
    while True:
        item = task_q.get()
        if item is None: return
        i, prog = item
        res_q.put(('start', wid, i, None))
        try:
            obs = check_program(db, S, prog, dialect, pname, t_limit, validate=validate, exclude=exclude)
            obs += generator_spelling(db, S, prog, dialect, pname, t_limit, validate, exclude)
        except Exception:
            import traceback
            obs = [Ob('%s: %s' % (dialect, prog.src), 'z3', INCONCLUSIVE, detail='harness exception: %s' % traceback.format_exc()[-400:])]
        res_q.put(('done', wid, i, obs))


def sharded(progs, cfg, procs=None):
    """[(program, [Ob])] in program order.  Worker processes pull programs from a queue (z3 is single-threaded); a program that
    keeps a worker busy for longer than a hard wall-clock limit (z3's own timeout is advisory: the sequence solver does not
    always honour it) is abandoned as INCONCLUSIVE, its worker is killed and replaced."""
    import multiprocessing as mp, os, time, queue
    procs = procs or int(os.environ.get('VERIF_PROCS') or min(12, os.cpu_count() or 4))
    if len(progs) < 24 or procs <= 1:
        res = _shard_worker((list(range(len(progs))), progs, cfg))
        res.sort(key=lambda t: t[0])
        return [(progs[i], obs) for i, obs in res]
    t_limit = cfg[3]
    hard = 6 * t_limit / 1000.0 + 30
    ctx = mp.get_context('spawn')
    task_q, res_q = ctx.Queue(), ctx.Queue()
    for i, p_ in enumerate(progs): task_q.put((i, p_))
    workers, busy, results = {}, {}, {}
    def spawn(wid):
        w = ctx.Process(target=_queue_worker, args=(wid, task_q, res_q, cfg)); w.daemon = True; w.start(); workers[wid] = w
    for wid in range(procs): spawn(wid)
    next_wid = procs
    dialect = cfg[1]
    while len(results) < len(progs):
        try:
            kind, wid, i, obs = res_q.get(timeout=2)
            if kind == 'start': busy[wid] = (i, time.time())
            else:
                results[i] = obs; busy.pop(wid, None)
        except queue.Empty:
            pass
        now = time.time()
        for wid, (i, t0) in list(busy.items()):
            if now - t0 > hard and i not in results:
                workers[wid].terminate(); workers[wid].join(5)
                del workers[wid]; del busy[wid]
                results[i] = [Ob('%s: %s' % (dialect, progs[i].src), 'z3', INCONCLUSIVE, detail='abandoned after %.0f s of wall-clock time (hard limit; the solver ignored its timeout)' % (now - t0))]
                spawn(next_wid); next_wid += 1
        if not any(w.is_alive() for w in workers.values()) and len(results) < len(progs):
            # every worker died (should not happen): account for what is missing instead of waiting for ever
            for i in range(len(progs)):
                results.setdefault(i, [Ob('%s: %s' % (dialect, progs[i].src), 'z3', INCONCLUSIVE, detail='worker process died')])
    for _ in workers: task_q.put(None)
    for w in workers.values():
        w.join(5)
        if w.is_alive(): w.terminate()
    return [(progs[i], results[i]) for i in range(len(progs))]


def run(tier, seed, only=None):
    from pony.orm import sqltranslation as T, sqlbuilding as B
    from pony.orm.dbproviders import sqlite as SQ
    rep = Report('C01', 'translation_validation',
                 'Per enumerated query program the SQL text emitted by the real translator and SQLite builder is parsed and evaluated over a '
                 'symbolic database; the program source is evaluated under the Python/3VL semantics the property fixes; z3 decides set '
                 'equality of the two results for all table contents and parameter values in the bound; counterexamples replayed on real SQLite.')
    rep.fn(T.SQLTranslator.init, T.SQLTranslator.construct_sql_ast, T.CmpMonad.getsql, T.AndMonad.getsql, T.NotMonad.getsql, T.NumericMixin.negate if hasattr(T.NumericMixin, 'negate') else T.NumericMixin.nonzero,
           T.NumericMixin.nonzero, T.StringMixin.nonzero, T.StringMixin.negate, T.StringMixin._like, T.StringMixin.__getitem__, T.AttrSetMonad.getsql if hasattr(T.AttrSetMonad, 'getsql') else T.AttrSetMonad.count,
           B.SQLBuilder.SELECT, B.SQLBuilder.WHERE, SQ.SQLiteBuilder.STRING_SLICE if hasattr(SQ.SQLiteBuilder, 'STRING_SLICE') else SQ.SQLiteBuilder.SELECT_FOR_UPDATE)
    rng = random.Random(seed)
    R = 2 if tier == 'quick' else 3
    db = get_db('sqlite')
    S = symdb.build(db, R=R, strlen=3)
    progs = programs(tier, rng)
    if only: progs = [p for p in progs if only in p.src]
    t_limit = 10000 if tier == 'quick' else 30000
    n = len(progs)
    for prog, obs in sharded(progs, ('sqlite', 'SQLite', R, t_limit, PID, True, ()), None if only else None):
        for ob in obs:
            rep.add(ob)
            if ob.verdict == CEX: rep.sample({'program': prog.src, 'counterexample': ob.cex, 'key': ob.key}, limit=6)
    rep.programs = n
    rep.bounds = {'rows per table': R, 'tables': sorted(S.tables), 'ints': 'unbounded', 'strings': 'z3 sequences, length <= 3',
                  'programs': '%d enumerated from the grammar in checks/c01.py (atoms, negations, seeded and/or combinations, projections, collection/aggregate/subquery forms, two-variable joins)' % n}
    rep.assumptions = ['primary keys distinct and >= 1; foreign keys reference present rows (PRAGMA foreign_keys is on); Required(str) columns are non-empty',
                       'inputs on which Python itself raises (division by zero, index out of range, ordering None in min/max) are excluded',
                       'binary collation; upper()/lower() are shared uninterpreted functions (SQLite calls Python\'s own str.upper)']
    rep.trusted = ['z3', 'engine/symsql/sqlparse.py + sqlsem.py (validated per program against the real SQLite engine on a solver-chosen database)',
                   'engine/symsql/pysem.py (the property\'s Python/3VL semantics)']
    return rep
